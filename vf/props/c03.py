"""C03 — quantity arithmetic agrees with dimensional analysis of unit definitions."""
import math
from fractions import Fraction

from ..core import get_worker, rng_for, qval, WorkerDied, WorkerTimeout
from ..unitdb import load_unitdb, rel_close, nmul, exact, to_dec, dim_text
from ..gen import UnitPool, EvalSession, random_qtree, plit, atom_uexpr, accepted_spellings, single_token_spelling

LEVEL = "exploration"
RULE = ("seeded random expression trees (depth <= 5) over all prelude units, aliases and accepted prefixes with "
        "+ - * / ^k and magnitudes 1e-30..1e30; the raw (unsimplified) result is read through `let` + the raw-global "
        "hook and compared with the exact-rational model value (relative 1e-9, widened by the tree's computed "
        "conditioning) and the model's dimension vector; thorough additionally sweeps every single-token "
        "(alias, prefix) spelling as an operand. distinct = expression text; non-trivial = >= 2 unit-bearing leaves "
        "and a well-conditioned, finite, non-zero model value")
EXHAUSTIVE = {"quick": False, "thorough": False}
FLOOR = {"quick": 2000, "thorough": 20000}
ASSUMPTIONS = ["ill-conditioned trees (catastrophic cancellation, relative error bound > 1e-4), overflowing or exactly-zero "
               "results are generated but not judged by value (dimension is still judged)"]
NSHARDS = 16


def shards(tier, seed):
    n = 16000 if tier == "quick" else 200000
    return [{"idx": i, "n": NSHARDS, "seed": seed, "count": n // NSHARDS, "tier": tier} for i in range(NSHARDS)]


def in_range(v):
    try:
        d = abs(to_dec(v))
    except Exception:
        return False
    return d == 0 or (to_dec("1e-250") < d < to_dec("1e250"))


def judge(sh, db, case, t, r_let, raw):
    if r_let.get("status") == "panic":
        return f"panic: {r_let['panic']}"
    if not r_let.get("ok"):
        if r_let.get("kind") == "DivisionByZero":
            sh.count("division_by_zero")
            return None
        return f"well-dimensioned arithmetic is rejected/fails: {r_let.get('stage')}/{r_let.get('kind')}: {r_let.get('msg')}"
    if raw is None or raw.get("t") != "q":
        return f"result is not a quantity: {raw}"
    x = qval(raw)
    # dimension: exact
    got_dim = db.sunit_dim(raw["unit"])
    if x != 0 and got_dim != t.dim:
        return f"result unit {raw['unit_text']!r} has dimension {dim_text(got_dim)}, dimensional analysis gives {dim_text(t.dim)}"
    if x == 0 and raw["unit"] and got_dim != t.dim:
        return f"zero result carries unit {raw['unit_text']!r} of the wrong dimension {dim_text(got_dim)}"
    if math.isnan(x) or math.isinf(x) or t.extreme or not in_range(t.value) or t.relerr > 1e-4 or t.value == 0:
        sh.count("value_not_judged")
        return None
    got = db.base_value(raw)
    tol = max(1e-9, 1e3 * t.relerr)
    if not rel_close(got, t.value, tol):
        return (f"value {raw['text']!r} = {float(got)!r} in base units, exact dimensional arithmetic gives "
                f"{float(t.value)!r} (tolerance {tol:g})")
    return "OK"


def run_tree(sh, w, es, db, t):
    case = {"code": t.text}
    rs = es.run([{"op": "eval", "code": f"let vf_r = {t.text}", "stmts": False},
                 {"op": "raw_global", "names": ["vf_r"]}])
    sh.judged()
    verdict = judge(sh, db, case, t, rs[0], (rs[1].get("values") or {}).get("vf_r"))
    if verdict == "OK":
        if t.nleaves >= 2:
            sh.nontrivial(t.text)
    elif verdict:
        sh.violation(case, f"`{t.text}`: {verdict}", (rs[1].get("values") or {}).get("vf_r"))
    return rs


def run_shard(sh, spec):
    w = get_worker()
    db = load_unitdb(w)
    pool = UnitPool(db)
    rng = rng_for(spec["seed"], "C03", spec["idx"])
    es = EvalSession(w, refresh=120)
    for k in range(spec["count"]):
        try:
            t = random_qtree(rng, pool, rng.choice([1, 2, 2, 3, 3, 4, 5]))
        except (ArithmeticError, ValueError):
            sh.count("generator_discard")   # model arithmetic undefined (0^-1, overflow): not a case
            continue
        try:
            rs = run_tree(sh, w, es, db, t)
            if k < 2 and rs[0].get("ok"):
                sh.sample({"code": t.text, "raw": rs[1]["values"]["vf_r"]["text"], "model_base_value": float(t.value)})
        except (WorkerDied, WorkerTimeout) as e:
            sh.violation({"code": t.text}, f"interpreter crashed/hung on `{t.text}`: {e}")
            w.restart()
            es.reset()
    if spec["tier"] == "thorough":
        # every single-token (alias, prefix) spelling as an operand at least once
        cells = [s for name in sorted(db.units) for s in accepted_spellings(db, name) if single_token_spelling(s)]
        from ..gen import QTree
        for i, s in enumerate(cells):
            if i % spec["n"] != spec["idx"]:
                continue
            a = atom_uexpr(db, s)
            sib = pool.primary(pool.sibling(rng, s.unit))
            b = atom_uexpr(db, sib)
            x, y = 3.0, 4.5
            t = QTree(f"(({plit(x)} {s.text}) * 2 + ({plit(y)} {sib.text}))",
                      nmul(Fraction(2 * x), a.factor) + nmul(Fraction(y), b.factor) if isinstance(a.factor, Fraction) and isinstance(b.factor, Fraction)
                      else to_dec(nmul(Fraction(2 * x), a.factor)) + to_dec(nmul(Fraction(y), b.factor)),
                      a if to_dec(a.factor) <= to_dec(b.factor) else b, 1e-14, 2, 2)
            try:
                run_tree(sh, w, es, db, t)
                sh.count("spelling_sweep")
            except (WorkerDied, WorkerTimeout) as e:
                sh.violation({"code": t.text}, f"interpreter crashed/hung on `{t.text}`: {e}")
                w.restart()
                es.reset()
    es.close()


def replay(sh, case):
    w = get_worker()
    sid = w.fork("p")
    r = w.eval(sid, f"let vf_r = {case['code']}", stmts=False)
    raw = w.call({"op": "raw_global", "sid": sid, "names": ["vf_r"]})["values"].get("vf_r")
    print("let:", r.get("ok"), r.get("msg"), "raw:", raw and raw["text"])
    print("(value judgement needs the generator's model value: rerun the tier with the recorded seed)")


LEVEL_TEXT = ("Seeded random exploration: expression trees over all prelude units/aliases/prefixes are evaluated by the real "
              "interpreter; the raw result (hook: unsimplified global) is judged against an independent exact-rational "
              "evaluation of the same tree from the units' direct definitions, both by value and by dimension vector.")
LEVEL_NOTE = ("Trusted: UnitDB model and the conditioning bound used to widen the 1e-9 tolerance; blind to relative errors "
              "below the tolerance and to trees that are not judged (overflow, cancellation, zero).")
TECHNIQUE = "runtime monitoring: random arithmetic trees judged by an exact-rational reference evaluator over unit definitions"
