"""C19 — date and time arithmetic is consistent."""
import math
from fractions import Fraction

from ..core import get_worker, rng_for, qval, WorkerDied, WorkerTimeout
from ..unitdb import load_unitdb, nmul, exact, to_dec
from ..gen import UnitPool, EvalSession, plit, atom_uexpr
from .c23 import rand_instant

LEVEL = "exploration"
RULE = ("seeded random instants (years -9000..9998, microsecond/nanosecond parts, clustered at DST transitions and range "
        "ends) x durations in every prelude time unit (fractional, both signs, up to range-breaking) x 40 IANA zones x "
        "process TZ in {UTC, Europe/Berlin, America/St_Johns, Pacific/Apia}: (t+d)-t vs d, (t+d)-d vs t, t -> tz(Z) keeps "
        "the instant, out-of-range results must be errors (exact integer-nanosecond model), and "
        "datetime(format_datetime(full-precision format, t)) == t. distinct = expression text; non-trivial = duration "
        "has a sub-second part or the zone is not UTC")
EXHAUSTIVE = {"quick": False, "thorough": False}
FLOOR = {"quick": 1500, "thorough": 20000}
ASSUMPTIONS = ["tolerance for duration round trips: 2 ns + 8 ulp of the duration in seconds (durations travel as f64 seconds)",
               "supported range taken from jiff's documentation: -9999-01-02T01:59:59Z .. 9999-12-30T22:00:00Z; results "
               "within 3 days of either end are not judged for error-vs-date"]
NSHARDS = 16
TZS = ["UTC", "Europe/Berlin", "America/St_Johns", "Pacific/Apia"]
ZONES = ["UTC", "Europe/Berlin", "Europe/London", "Europe/Moscow", "America/New_York", "America/Los_Angeles",
         "America/St_Johns", "America/Sao_Paulo", "America/Caracas", "America/Anchorage", "Asia/Kathmandu", "Asia/Kolkata",
         "Asia/Tokyo", "Asia/Shanghai", "Asia/Tehran", "Asia/Kabul", "Asia/Dubai", "Asia/Yangon", "Australia/Sydney",
         "Australia/Adelaide", "Australia/Lord_Howe", "Australia/Eucla", "Pacific/Apia", "Pacific/Auckland",
         "Pacific/Chatham", "Pacific/Kiritimati", "Pacific/Honolulu", "Pacific/Marquesas", "Africa/Cairo",
         "Africa/Johannesburg", "Africa/Casablanca", "Africa/Lagos", "Atlantic/Azores", "Atlantic/Reykjavik",
         "Indian/Maldives", "Antarctica/Troll", "America/Argentina/Buenos_Aires", "America/Mexico_City",
         "Asia/Pyongyang", "Europe/Dublin"]
MIN_S = -377705023201       # -9999-01-02T01:59:59Z
MAX_S = 253402207200        # 9999-12-30T22:00:00Z
DST_INSTANTS = [  # around DST transitions of Europe/Berlin, America/New_York, Australia/Lord_Howe, Pacific/Apia date-line jump
    1679792399, 1679792400, 1698541199, 1698541200, 1678604399, 1678604400, 1699163999, 1699164000,
    1680362999, 1680363000, 1696087799, 1696087800, 1325239199, 1325239200, 1325325600,
]


def shards(tier, seed):
    n = 16000 if tier == "quick" else 200000
    return [{"idx": i, "n": NSHARDS, "seed": seed, "count": n // NSHARDS, "tz": TZS[i % len(TZS)]} for i in range(NSHARDS)]


def gen_instant(rng):
    r = rng.random()
    if r < 0.2:
        s = rng.choice(DST_INSTANTS) + rng.randint(-2, 2)
        ns = rng.choice([0, 1, 999999999, 500000000, rng.randint(0, 999999999)])
        return f"from_unixtime_s({s}) + {ns} ns" if ns else f"from_unixtime_s({s})", s * 10 ** 9 + ns, True
    if r < 0.3:
        s = rng.choice([MIN_S + rng.randint(86400 * 4, 86400 * 400), MAX_S - rng.randint(86400 * 4, 86400 * 400)])
        return f"from_unixtime_s({s})", s * 10 ** 9, True
    lit_, us = rand_instant(rng)
    return lit_, us * 1000, False


def time_units(db, pool):
    key = None
    for k, names in pool.groups.items():
        if "second" in names:
            key = k
    return sorted(pool.groups[key])


def gen_duration(rng, db, pool, tunits):
    u = rng.choice(tunits)
    sp = pool.random_spelling(rng, u, 0.3)
    f = atom_uexpr(db, sp).factor
    r = rng.random()
    if r < 0.4:
        x = float(rng.randint(-1000, 1000))
    elif r < 0.8:
        x = round(rng.uniform(-1000, 1000), rng.randint(1, 9))
    elif r < 0.9:
        x = rng.choice([1e-9, 1e-6, 0.5, 1.5, -0.25, 1e-3]) * rng.choice([1, 3, 7])
    else:
        x = float(f"{rng.uniform(-9, 9):.3g}e{rng.randint(3, 13)}")
    return f"{plit(x)} {sp.text}", nmul(exact(x), f), x


def ulp(x):
    x = abs(float(x))
    return math.ulp(x) if x > 0 else 5e-324


def dt_ns(r):
    if r.get("ok") and r.get("value") and r["value"].get("t") == "dt":
        return int(r["value"]["ns"])
    return None


def run_case(sh, es, rng, db, pool, tunits, k):
    t_text, t_ns, special = gen_instant(rng)
    kind = rng.randrange(4)
    sh.judged()
    if kind == 0:
        d_text, d_s, x = gen_duration(rng, db, pool, tunits)
        d_float = float(d_s)
        res_ns = t_ns + int(Fraction(d_s) * 10 ** 9) if isinstance(d_s, Fraction) else t_ns + int(d_s * 10 ** 9)
        code_a = f"(({t_text}) + {d_text}) - ({t_text})"
        code_b = f"(({t_text}) + {d_text}) - {d_text}"
        code_c = f"({t_text}) + {d_text}"
        rs = es.batch([code_a, code_b, code_c])
        case = {"codes": [code_a, code_b, code_c]}
        res_s = res_ns / 1e9
        inside = MIN_S + 3 * 86400 < res_s < MAX_S - 3 * 86400
        outside = res_s < MIN_S - 3 * 86400 or res_s > MAX_S + 3 * 86400
        rc = rs[2]
        if rc.get("status") == "panic":
            sh.violation(case, f"`{code_c}`: panic {rc['panic']['msg'][:200]}")
            return
        if outside:
            sh.count("out_of_range_cases")
            if rc.get("ok"):
                sh.violation(case, f"`{code_c}` should be out of the supported range (exact result {res_s:.0f} s after the "
                                   f"epoch) but yields {rc.get('val_text')}")
            elif rc.get("kind") not in ("DateTimeOutOfRange", "DurationOutOfRange"):
                sh.violation(case, f"`{code_c}` fails with {rc.get('kind')}: {rc.get('msg')}, expected an out-of-range error")
            return
        if not inside:
            sh.count("range_margin_not_judged")
            return
        tol_s = 2e-9 + 8 * ulp(d_float)
        ns_c = dt_ns(rc)
        if ns_c is None and rc.get("stage") == "type" and d_float == 0:
            # `t + 0 hour`: a literal zero is dimension-polymorphic in numbat and `DateTime + <polymorphic>` is rejected by
            # the type checker. That is a typing rule, not date arithmetic: nothing to judge for C19.
            sh.count("zero-literal duration rejected by the type checker (polymorphic zero; not judged)")
            return
        if ns_c is None:
            sh.violation(case, f"`{code_c}` fails although the exact result is in range: {rc.get('kind')}: {rc.get('msg')}")
            return
        if abs(ns_c - res_ns) > tol_s * 1e9 + 1:
            sh.violation(case, f"`{code_c}` is the instant {ns_c} ns, exact arithmetic gives {res_ns} ns (tolerance {tol_s * 1e9:.0f} ns)")
        ra, rb = rs[0], rs[1]
        if not ra.get("ok") or ra["value"].get("t") != "q":
            sh.violation(case, f"`{code_a}` fails: {ra.get('msg') or ra.get('panic')}")
        else:
            got = float(db.base_value(ra["value"]))
            if abs(got - d_float) > tol_s:
                sh.violation(case, f"`{code_a}` = {ra.get('val_text')} = {got!r} s, the duration is {d_float!r} s (tolerance {tol_s:g})")
            if ra["value"]["unit_text"] != "s" and got != 0:
                sh.violation(case, f"`{code_a}` is a duration in {ra['value']['unit_text']!r}, documented unit is seconds")
        nsb = dt_ns(rb)
        if nsb is None:
            sh.violation(case, f"`{code_b}` fails: {rb.get('msg') or rb.get('panic')}")
        elif abs(nsb - t_ns) > tol_s * 1e9 + 2:
            sh.violation(case, f"`{code_b}` is the instant {nsb} ns, t is {t_ns} ns (tolerance {tol_s * 1e9:.0f} ns)")
        if d_float != int(d_float):
            sh.nontrivial(code_c)
        sh.count_in("kinds", "add_sub")
    elif kind == 1:
        z = rng.choice(ZONES)
        code = f'({t_text}) -> tz("{z}")'
        code0 = f"({t_text})"
        rs = es.batch([code, code0, f'(({t_text}) -> tz("{z}")) - ({t_text})'])
        case = {"codes": [code]}
        n1, n0 = dt_ns(rs[0]), dt_ns(rs[1])
        if rs[0].get("status") == "panic":
            sh.violation(case, f"`{code}`: panic {rs[0]['panic']['msg'][:200]}")
        elif n1 is None:
            if rs[0].get("kind") == "UnknownTimezone":
                sh.count("zone_unknown_to_tzdb")
            else:
                sh.violation(case, f"`{code}` fails: {rs[0].get('kind')}: {rs[0].get('msg')}")
        else:
            if n0 is None or n1 != n0 or n0 != t_ns:
                sh.violation(case, f"`{code}` is the instant {n1} ns but t is {n0} ns (model {t_ns} ns)")
            if rs[0]["value"].get("tz") != z:
                sh.violation(case, f"`{code}` reports zone {rs[0]['value'].get('tz')!r}")
            if rs[2].get("ok") and qval(rs[2]["value"]) != 0:
                sh.violation(case, f"difference between an instant and itself in another zone is {rs[2].get('val_text')}")
            if z != "UTC":
                sh.nontrivial(code)
        sh.count_in("kinds", "tz")
    elif kind == 2:
        z = rng.choice(ZONES)
        fmt = rng.choice(["%Y-%m-%d %H:%M:%S%.f %z", "%Y/%m/%d %H:%M:%S%.f %z", "%Y-%m-%dT%H:%M:%S%.f%:z",
                          "%Y-%m-%d %I:%M:%S%.f %p %z"])
        if "T%H" in fmt and not (0 <= t_ns < 253370764800 * 10 ** 9):
            fmt = "%Y-%m-%d %H:%M:%S%.f %z"      # RFC 3339 has four-digit non-negative years only
        inner = f'(({t_text}) -> tz("{z}"))' if rng.random() < 0.7 else f"({t_text})"
        code = f'datetime(format_datetime("{fmt}", {inner}))'
        rs = es.batch([code, f'format_datetime("{fmt}", {inner})'])
        case = {"codes": [code]}
        n1 = dt_ns(rs[0])
        if rs[0].get("status") == "panic":
            sh.violation(case, f"`{code}`: panic {rs[0]['panic']['msg'][:200]}")
        elif n1 is None:
            shown = (rs[1].get("value") or {}).get("v") or ""
            off = shown.rsplit(" ", 1)[-1] if " " in shown else shown[-9:]
            digits = [c for c in off if c.isdigit()]
            if rs[1].get("kind") == "UnknownTimezone" or rs[0].get("kind") == "UnknownTimezone":
                sh.count("zone_unknown_to_tzdb")
            elif len(digits) > 4 and (off.startswith("+") or off.startswith("-") or ":" in off):
                # local-mean-time offsets with seconds (+05:53:28) are outside the documented input formats
                sh.count("sub_minute_offset_not_judged")
            else:
                sh.violation(case, f"`{code}` fails: {rs[0].get('kind')}: {rs[0].get('msg')} "
                                   f"(formatted text: {(rs[1].get('value') or {}).get('v')!r})")
        elif n1 != t_ns:
            sh.violation(case, f"`{code}` reads back as {n1} ns, the instant is {t_ns} ns "
                               f"(formatted text: {(rs[1].get('value') or {}).get('v')!r})")
        sh.nontrivial(code)
        sh.count_in("kinds", "format_parse")
    else:
        # difference of two instants against exact integer arithmetic
        t2_text, t2_ns, _ = gen_instant(rng)
        code = f"({t_text}) - ({t2_text})"
        r = es.eval(code)
        case = {"codes": [code]}
        want = (t_ns - t2_ns) / 1e9
        if not r.get("ok") or r["value"].get("t") != "q":
            sh.violation(case, f"`{code}` fails: {r.get('msg') or r.get('panic')}")
        else:
            got = float(db.base_value(r["value"]))
            if abs(got - want) > 2e-9 + 4 * ulp(want):
                sh.violation(case, f"`{code}` = {got!r} s, exact difference is {want!r} s")
        sh.nontrivial(code)
        sh.count_in("kinds", "diff")
    if len(sh.samples) < 3 and kind == 0:
        sh.sample({"code": code_c})


def run_shard(sh, spec):
    w = get_worker(env={"TZ": spec["tz"]})
    db = load_unitdb(w)
    pool = UnitPool(db)
    tunits = time_units(db, pool)
    rng = rng_for(spec["seed"], "C19", spec["idx"])
    es = EvalSession(w, refresh=150)
    sh.count_in("process_tz", spec["tz"])
    for k in range(spec["count"]):
        try:
            run_case(sh, es, rng, db, pool, tunits, k)
        except (WorkerDied, WorkerTimeout) as e:
            sh.violation({"k": k}, f"interpreter crashed/hung: {e}")
            w.restart()
            es.reset()
        except (ArithmeticError, ValueError):
            sh.count("generator_discard")
    es.close()


def replay(sh, case):
    w = get_worker()
    sid = w.fork("p")
    for c in case.get("codes", []):
        r = w.eval(sid, c, stmts=False)
        print(c, "=>", r.get("val_text") or r.get("msg") or r.get("panic"), (r.get("value") or {}).get("ns"))
    print("(expectations are part of the generated case: rerun the tier with the recorded seed to judge)")


LEVEL_TEXT = ("Seeded random exploration: date-time expressions are evaluated by the real interpreter (structured instants as "
              "integer nanoseconds) and judged against exact integer-nanosecond arithmetic: duration round trips, zone "
              "conversion invariance, error-instead-of-wrong-date at the range ends, and format/parse round trips.")
LEVEL_NOTE = ("Trusted: the integer calendar model, jiff's documented range with a 3-day unjudged margin, the 2 ns + 8 ulp "
              "tolerance; zones missing from the installed tz database are counted, not judged.")
TECHNIQUE = "runtime monitoring: date-time round-trip/invariance monitors against an exact integer-nanosecond model"
