"""C20 — HTML rendering never emits user-controlled markup."""
import html as pyhtml
import re

from ..core import get_worker, rng_for, WorkerDied, WorkerTimeout
from ..gen import EvalSession

LEVEL = "exploration"
RULE = ("inputs that carry HTML metacharacter payloads in strings, comments, decorators, struct/field values, format "
        "specifiers, interpolations and in source lines quoted by diagnostics of every stage (resolver/parse, name "
        "clash, type, run time incl. error(), assert_eq, datetime/timezone/element lookups). Every HTML rendering "
        "(result, print, statement echo via HtmlFormatter; diagnostics via HtmlWriter) is tokenised strictly: only "
        "`<span class=\"numbat-…\">`/`</span>` may appear as tags, text may contain no raw `<`/`>` and only well-formed "
        "entities, and the text content (tags removed, entities decoded) must equal the plain-text rendering of the same "
        "output; the same for the output of `info <name>` (payload in @name/@url/@description/@example of units, functions and "
        "variables, in string and struct values) and of `list`. distinct = (template, payload); non-trivial = the plain rendering contains `<`, `>` or `&`")
EXHAUSTIVE = {"quick": False, "thorough": False}
FLOOR = {"quick": 300, "thorough": 3000}
ASSUMPTIONS = ["the plain-text rendering of the same markup/diagnostic is the reference for the text content of the HTML rendering"]
NSHARDS = 16

PAYLOADS = [
    "<img src=x onerror=alert(1)>", "</span><script>alert(1)</script>", "&lt;b&gt;", "a&b", "&#x3c;script&#x3e;",
    "<", ">", "&", "1 < 2 && 3 > 2", "<b>bold</b>", "<span class=\\\"numbat-value\\\">", "x' onmouseover='alert(1)",
    "<!-- comment -->", "<a href=javascript:alert(1)>", "&amp;", "<<>>", "]]>", "<svg/onload=alert(1)>",
]

# {P} = payload (inside a numbat string literal unless stated otherwise)
OK_TEMPLATES = [
    '"{P}"', 'print("{P}")', 'let vf_s = "{P}"\nvf_s', '["{P}", "{P}x"]', '"a {{1 + 1}} {P}"', 'str_append("{P}", "{P}")',
    'struct VfS {{ f: String }}\nVfS {{ f: "{P}" }}', 'print("{P} = {{2 m}}")', '"{P}" == "{P}"',
    '@name("{P}")\n@url("{P}")\n@description("{P}")\nunit vf_u_{K}', '@name("{P}")\nlet vf_v_{K} = 1',
    '@description("{P}")\nfn vf_f_{K}(x) = x', 'print(uppercase("{P}"))', 'type("{P}")', 'str_length("{P}") # {P}',
    '1 + 1 # {P}',
]
ERR_TEMPLATES = [
    ('1 + # {P}', "parse"), ('"{P}', "parse"), ('1 ~ "{P}"', "parse"), ('let sin = "{P}"', "name"),
    ('vf_unknown_ident + "{P}"', "type"), ('1 m + "{P}"', "type"), ('sin("{P}")', "type"), ('let vf_l: Length = "{P}"', "type"),
    ('error("{P}")', "runtime"), ('assert_eq("{P}", "x{P}")', "runtime"), ('assert("{P}" == "")', "runtime"),
    ('1 / 0 # {P}', "runtime"), ('head([]) + str_length("{P}")', "runtime"), ('datetime("{P}")', "runtime"),
    ('datetime("2020-01-01 00:00:00 UTC") -> tz("{P}")', "runtime"), ('element("{P}")', "runtime"),
    ('"{{1:{Q}}}"', "runtime"), ('use vf::nowhere # {P}', "resolver"), ('format_datetime("{P}%Q", now())', "runtime"),
    ('fn vf_g_{K}(x: Length) = x\nvf_g_{K}("{P}")', "type"), ('if "{P}" then 1 else 2', "type"),
    ('VfMissing {{ f: "{P}" }}', "type"), ('"{P}".vf_field', "type"), ('[1, "{P}"]', "type"),
    ('unit_of("{P}")', "type"), ('parse("{P}")', "runtime"),
]

TAG_RE = re.compile(r'<span class="numbat-[a-z-]+">|</span>')
ENTITY_RE = re.compile(r"&(amp|lt|gt|quot|apos|#x[0-9a-fA-F]+|#[0-9]+);")


def shards(tier, seed):
    n = 12000 if tier == "quick" else 200000
    return [{"idx": i, "n": NSHARDS, "seed": seed, "count": n // NSHARDS} for i in range(NSHARDS)]


def tokenise(h):
    """strict scan: returns (text content, problem or None)"""
    out = []
    i = 0
    depth = 0
    n = len(h)
    while i < n:
        c = h[i]
        if c == "<":
            m = TAG_RE.match(h, i)
            if not m:
                return None, f"raw `<` that is not one of the renderer's span tags at offset {i}: {h[max(0, i - 20):i + 60]!r}"
            depth += -1 if m.group(0) == "</span>" else 1
            if depth < 0:
                return None, f"unbalanced `</span>` at offset {i}: {h[max(0, i - 40):i + 20]!r}"
            i = m.end()
        elif c == ">":
            return None, f"raw `>` in text at offset {i}: {h[max(0, i - 30):i + 30]!r}"
        elif c == "&":
            m = ENTITY_RE.match(h, i)
            if not m:
                return None, f"raw `&` that does not start an entity at offset {i}: {h[max(0, i - 20):i + 30]!r}"
            out.append(pyhtml.unescape(m.group(0)))
            i = m.end()
        else:
            out.append(c)
            i += 1
    if depth != 0:
        return None, "unbalanced span tags"
    return "".join(out), None


def check_pair(sh, case, what, html_text, plain_text):
    """one HTML rendering against its plain-text twin"""
    if html_text is None:
        return
    sh.judged()
    text, prob = tokenise(html_text)
    if prob is None and plain_text is not None and text != plain_text:
        prob = (f"text content differs from the plain rendering: html text {text[:120]!r} vs plain {plain_text[:120]!r}")
    if plain_text is not None and any(ch in plain_text for ch in "<>&"):
        sh.nontrivial(case["template"], case["payload"], what)
    if prob:
        fid = "F7" if what == "diagnostic" else None
        if fid:
            sh.known_hit(fid, dict(case, what=what, problem=prob))
        else:
            sh.violation(dict(case, what=what), f"{what} of `{case['code'][:200]}`: {prob}")
    sh.count_in("renderings", what)


def run_case(sh, es, case):
    r = es.eval(case["code"], html=True, stmts=True)
    if r.get("status") == "panic":
        sh.count("panics_left_to_C08")
        return
    if r.get("status") == "skipped":
        return
    for p, ph in zip(r.get("prints") or [], r.get("prints_html") or []):
        check_pair(sh, case, "print", ph, p)
    if r.get("ok"):
        check_pair(sh, case, "result", r.get("out_html"), r.get("out_text"))
        for s in r.get("stmts") or []:
            check_pair(sh, case, "echo", s.get("pretty_html"), s.get("pretty"))
    else:
        d = r.get("diag") or {}
        if "panic" in d:
            sh.count("diag_panics_left_to_C08")
        else:
            check_pair(sh, case, "diagnostic", d.get("html"), d.get("plain"))
        sh.count_in("error_stages", str(r.get("stage")))
        if case.get("stage") and r.get("stage") != case["stage"]:
            sh.count_in("stage_other_than_planned", f"{case['stage']}->{r.get('stage')}")


def make_case(rng, k, idx):
    p = rng.choice(PAYLOADS)
    if rng.random() < 0.3:
        p = p + rng.choice(PAYLOADS)
    if rng.random() < 0.35:
        # the payload inside a larger, multi-line / whitespace-laden / non-ASCII text (numbat escapes: a real newline or
        # tab at run time)
        p = rng.choice(["first line\\n", "\\n", "\\t", "a\\r\\nb ", "  ", "ä€ ", "x\\ny\\n", ""]) + p + \
            rng.choice(["", "\\nlast line", "\\n", " \\t", " end"])
    q = p.replace("\\\"", "").replace("{", "").replace("}", "")
    if rng.random() < 0.5:
        tmpl, stage = rng.choice(OK_TEMPLATES), None
    else:
        tmpl, stage = rng.choice(ERR_TEMPLATES)
    code = tmpl.format(P=p.replace("{", "{{").replace("}", "}}") if False else p, Q=q, K=f"{idx}_{k}")
    return {"template": tmpl, "payload": p, "code": code, "stage": stage}


INFO_DEFS = [
    # (definition with the payload in decorators, keyword to ask `info` about)
    ('dimension VfInfoD{K}\n@name("{P}")\n@url("{P}")\n@description("{P}")\nunit vf_iu_{K}: VfInfoD{K}', "vf_iu_{K}"),
    ('@name("{P}")\n@aliases(vf_ia_{K})\nunit vf_iv_{K}: Length = 2 m', "vf_ia_{K}"),
    ('@name("{P}")\n@description("{P}")\n@url("{P}")\n@example("vf_if_{K}(1)", "{P}")\nfn vf_if_{K}(x: Scalar) -> Scalar = x', "vf_if_{K}"),
    ('@name("{P}")\n@description("{P}")\nlet vf_il_{K} = 1 m', "vf_il_{K}"),
    ('let vf_is_{K} = "{P}"', "vf_is_{K}"),
    ('struct VfIs{K} {{ f: String }}\nlet vf_it_{K} = VfIs{K} {{ f: "{P}" }}', "vf_it_{K}"),
]


def run_info(sh, w, rng, k, idx):
    """`info <name>` and `list`: the payload travels through decorators / values into the informational output"""
    p = rng.choice(PAYLOADS)
    tmpl, kw = rng.choice(INFO_DEFS)
    K = f"{idx}_{k}"
    code = tmpl.format(P=p, K=K)
    case = {"template": "info:" + tmpl[:40], "payload": p, "code": code, "stage": None}
    sid = w.fork("p")
    try:
        r = w.eval(sid, code, stmts=False)
        if not r.get("ok"):
            sh.count_in("info_definition_not_accepted", str(r.get("kind")))
            return
        for keyword in (kw.format(K=K), p, "vf_unknown <b>" + p):
            ri = w.call({"op": "info", "sid": sid, "keyword": keyword})
            if ri.get("status") == "panic":
                sh.count("panics_left_to_C08")
                continue
            check_pair(sh, dict(case, code=code + f"\ninfo {keyword}"), "info", ri.get("html"), ri.get("plain"))
        re_ = w.call({"op": "environment", "sid": sid})
        if re_.get("ok"):
            check_pair(sh, dict(case, code=code + "\nlist"), "list", re_.get("html"), re_.get("plain"))
    finally:
        w.drop(sid)


def run_shard(sh, spec):
    w = get_worker()
    rng = rng_for(spec["seed"], "C20", spec["idx"])
    for k in range(max(8, spec["count"] // 40)):
        try:
            run_info(sh, w, rng, k, spec["idx"])
        except (WorkerDied, WorkerTimeout) as e:
            sh.violation({"code": "info"}, f"interpreter crashed/hung rendering info output: {e}")
            w.restart()
    es = EvalSession(w, refresh=80)
    for k in range(spec["count"]):
        case = make_case(rng, k, spec["idx"])
        try:
            run_case(sh, es, case)
        except (WorkerDied, WorkerTimeout) as e:
            sh.violation(case, f"interpreter crashed/hung on `{case['code'][:200]}`: {e}")
            w.restart()
            es.reset()
        if len(sh.samples) < 3 and case["stage"]:
            sh.sample({"code": case["code"]})
    es.close()


def replay(sh, case):
    w = get_worker()
    es = EvalSession(w)
    run_case(sh, es, case)


LEVEL_TEXT = ("Seeded exploration of payload x placement x error stage: the real HtmlFormatter/HtmlWriter output is tokenised by "
              "a strict monitor (only the renderer's span tags; no raw metacharacters) and its text content is compared with "
              "the plain-text rendering of the same markup/diagnostic, which makes unescaped, double-escaped or dropped text "
              "observable.")
LEVEL_NOTE = ("Trusted: the plain-text rendering as reference for content; the tokenizer's whitelist of tags and entities.")
TECHNIQUE = "runtime monitoring: strict HTML tokenizer + plain-vs-HTML differential monitor over injected payloads"
