#!/bin/bash
# usage: tools/seedtest.sh <seed dir with patch.diff> <check id> [more check ids...]
# Applies the seeded change to a scratch worktree of /repo (outside /repo and /verif), runs the given
# checks (quick tier unless TIER is set) against it through VERIF_REPO, and removes the worktree and
# its build output again. Evidence/replays of these runs go to a scratch dir, never to /verif/evidence.
set -u
SEED=$(realpath "$1"); shift
NAME=$(basename "$SEED")
WT=/tmp/seedtest/$NAME
TGT=/tmp/seedtest/target-$NAME
TIER=${TIER:-quick}
mkdir -p /tmp/seedtest
git -C /repo worktree remove --force "$WT" 2>/dev/null
git -C /repo worktree add --detach "$WT" HEAD -q || exit 2
if ! git -C "$WT" apply "$SEED/patch.diff"; then echo "PATCH DOES NOT APPLY"; git -C /repo worktree remove --force "$WT"; exit 2; fi
rc_all=0
for id in "$@"; do
  echo "=== $NAME vs $id ($TIER) ==="
  VERIF_REPO="$WT" VERIF_TARGET="$TGT" VERIF_EVIDENCE_DIR=/tmp/seedtest/evidence-$NAME VERIF_REPLAY_DIR=/tmp/seedtest/replays-$NAME \
    timeout 7200 /verif/check "$id" --tier "$TIER" 2>&1 | grep -v "^WARNING conda" | cut -c1-700 | tail -${TAIL:-12}
  echo "exit=${PIPESTATUS[0]}"
done
if [ -z "${KEEP:-}" ]; then
  git -C /repo worktree remove --force "$WT"
  rm -rf "$TGT" /tmp/seedtest/evidence-$NAME /tmp/seedtest/replays-$NAME
fi
