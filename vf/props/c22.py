"""C22 — the command-line tool reports success and failure faithfully."""
import os
import shutil
import subprocess
import tempfile

from ..core import get_worker, rng_for, WorkerDied, WorkerTimeout, VERIF, TARGET
from ..build import cli_binary

LEVEL = "exploration"
RULE = ("seeded random programs of 1-6 one-line statements (prints, definitions, expressions) that either all succeed or "
        "fail at a planned stage (resolver, parse, name clash, type, run time: division by zero / error() / assert) and "
        "position (first, middle, last); each is run through the real `numbat` binary as a file, as `-e` arguments, and "
        "as file + `-e`, with isolated HOME/XDG dirs, --no-config and colour off. Exit status, stdout and stderr are "
        "compared with the library-level observation of the same code (nbserve) and across the file / -e forms. "
        "distinct = (program text, invocation form); non-trivial = program has >= 2 statements or fails")
EXHAUSTIVE = {"quick": False, "thorough": False}
FLOOR = {"quick": 100, "thorough": 2000}
ASSUMPTIONS = ["expected stdout of a succeeding input = captured print output, one per line, followed by the displayed final "
               "value (library observation through the same formatting call the CLI uses)",
               "for a failing input stdout must be empty or a prefix of the prints executed before the failure (the CLI "
               "buffers prints); diagnostics must be on stderr only"]
NEEDS = ["server", "cli"]
NSHARDS = 16

OK_STMTS = [
    'print("hello {K}")', 'print({N} m + {N} cm)', 'let vf_a{K} = {N} km', 'fn vf_f{K}(x) = x * {N}', '{N} * 3 kg',
    'print("v = {{ {N} m/s -> km/h }}")', 'let vf_b{K}: Time = {N} min', 'unit vf_u{K} = {N} m', '{N} m -> cm', '[{N}, 2, 3]',
    'print(sqrt({N} m^2))', '"str {K}"', 'true && false', 'struct VfS{K} {{ a: Length }}', 'print(VfS0 {{ a: 1 m }}) ',
    'assert_eq({N} m, {N} m)', 'let vf_c{K} = "text"', 'print(vf_c0)',
]
FAIL_STMTS = {
    "resolver": ["use vf::does_not_exist"],
    "parse": ["1 +", "let = 3", "(1 m"],
    "name": ["let sin = 1", "fn cos(x) = x"],
    "type": ["1 m + 1 s", 'sqrt("x")', "let vf_t: Length = 1 s", "vf_undefined_{K}"],
    "runtime": ["1 / 0", 'error("boom {K}")', "assert(1 m > 2 m)", "head([]) * 1", "assert_eq(1 m, 2 m)"],
}


def shards(tier, seed):
    n = 128 if tier == "quick" else 3200
    return [{"idx": i, "n": NSHARDS, "seed": seed, "count": n // NSHARDS} for i in range(NSHARDS)]


def gen_program(rng, k):
    n = rng.randint(1, 6)
    lines = []
    # a few statements depend on earlier ones; keep the dependencies satisfiable
    lines.append("struct VfS0 { a: Length }")
    lines.append('let vf_c0 = "text0"')
    for i in range(n):
        t = rng.choice(OK_STMTS)
        lines.append(t.format(K=f"{k}_{i}", N=rng.randint(1, 99)).strip())
    fail_stage = None
    if rng.random() < 0.6:
        fail_stage = rng.choice(list(FAIL_STMTS))
        f = rng.choice(FAIL_STMTS[fail_stage]).format(K=k)
        pos = rng.choice([0, len(lines) // 2, len(lines)])
        lines.insert(pos, f)
        if rng.random() < 0.5:
            lines.append('print("after the failing statement")')
    # lexical variety that must not change the meaning: trailing comments, comment-only and blank lines, indentation
    out = []
    for ln in lines:
        r = rng.random()
        if r < 0.15 and "\n" not in ln:
            ln = ln + rng.choice(["  # note", " # 1/0", "#x", " # print(\"no\")"])
        elif r < 0.22:
            ln = "  " + ln
        out.append(ln)
        r = rng.random()
        if r < 0.06:
            out.append(rng.choice(["# just a comment", "   # indented comment"]))
        elif r < 0.10:
            out.append(rng.choice(["", "   "]))
    return out, fail_stage


def run_cli(args, home, cwd):
    env = {"HOME": home, "XDG_CONFIG_HOME": os.path.join(home, "cfg"), "XDG_DATA_HOME": os.path.join(home, "data"),
           "XDG_CACHE_HOME": os.path.join(home, "cache"), "PATH": os.environ.get("PATH", ""), "NO_COLOR": "1", "TZ": "UTC",
           "TERM": "dumb"}
    p = subprocess.run([cli_binary(), "--no-config", "--color", "never"] + args, cwd=cwd, env=env,
                       stdin=subprocess.DEVNULL, capture_output=True, timeout=120)
    return p.returncode, p.stdout.decode("utf-8", "replace"), p.stderr.decode("utf-8", "replace")


def expected_from_library(w, code):
    sid = w.fork("p")
    try:
        r = w.eval(sid, code, stmts=False)
    finally:
        w.drop(sid)
    return r


def judge(sh, case, form, rc, out, err, lib, lines_of_second=None):
    probs = []
    ok = bool(lib.get("ok"))
    if lib.get("status") == "panic":
        sh.count("library_panic_left_to_C08")
        return
    if ok:
        want = "".join(p + "\n" for p in lib.get("prints") or [])
        if lib.get("value") is not None:
            want += lib["val_text"] + "\n"
        if rc != 0:
            probs.append(f"exit status {rc} although every input succeeds")
        if out != want:
            probs.append(f"stdout {out!r} differs from the library-level output {want!r}")
        if err.strip():
            probs.append(f"stderr is not empty for a succeeding run: {err[:200]!r}")
    else:
        if rc == 0:
            probs.append(f"exit status 0 although the input fails ({lib.get('stage')}/{lib.get('kind')})")
        prints = lib.get("prints") or []
        allowed = ["".join(p + "\n" for p in prints[:i]) for i in range(len(prints) + 1)]
        if out not in allowed:
            probs.append(f"stdout of a failing run is {out!r}, expected nothing or prints executed before the failure")
        if "error" not in err:
            probs.append(f"no diagnostic on stderr: {err[:200]!r}")
        if "error:" in out or "Backtrace" in out:
            probs.append("diagnostic text on stdout")
    if probs:
        sh.violation(dict(case, form=form), f"[{form}] " + "; ".join(probs))


def run_shard(sh, spec):
    w = get_worker()
    rng = rng_for(spec["seed"], "C22", spec["idx"])
    tmp = tempfile.mkdtemp(prefix="vf_c22_", dir=TARGET)
    try:
        home = os.path.join(tmp, "home")
        os.makedirs(home)
        for k in range(spec["count"]):
            lines, stage = gen_program(rng, f"{spec['idx']}_{k}")
            code = "\n".join(lines)
            case = {"lines": lines, "planned_failure": stage}
            lib = expected_from_library(w, code)
            if stage is None and not lib.get("ok"):
                sh.count("planned_success_fails_in_library")   # generator imprecision: judged as what it is
            path = os.path.join(tmp, f"prog_{k}.nbt")
            with open(path, "w") as f:
                f.write(code)
            try:
                rc1, out1, err1 = run_cli([path], home, tmp)
                e_args = []
                for l in lines:
                    e_args += ["-e", l]
                rc2, out2, err2 = run_cli(e_args, home, tmp)
            except subprocess.TimeoutExpired:
                sh.violation(case, "numbat binary did not finish within 120 s")
                continue
            sh.judged(2)
            judge(sh, case, "file", rc1, out1, err1, lib)
            judge(sh, case, "-e", rc2, out2, err2, lib)
            if (rc1 == 0) != (rc2 == 0) or out1 != out2:
                sh.violation(case, f"file run (exit {rc1}, stdout {out1!r}) and -e run (exit {rc2}, stdout {out2!r}) differ")
            if len(lines) >= 2 or stage:
                sh.nontrivial(code, "file")
                sh.nontrivial(code, "-e")
            sh.count_in("planned", stage or "success")
            # file + -e combined: split the program
            if rng.random() < 0.4 and len(lines) >= 4:
                cut = rng.randint(2, len(lines) - 1)
                p2 = os.path.join(tmp, f"prog_{k}_a.nbt")
                with open(p2, "w") as f:
                    f.write("\n".join(lines[:cut]))
                args = [p2]
                for l in lines[cut:]:
                    args += ["-e", l]
                rc3, out3, err3 = run_cli(args, home, tmp)
                sh.judged()
                # library: two inputs in one session
                sid = w.fork("p")
                la = w.eval(sid, "\n".join(lines[:cut]), stmts=False)
                lb = w.eval(sid, "\n".join(lines[cut:]), stmts=False) if la.get("ok") else None
                w.drop(sid)
                def text(l):
                    t = "".join(p + "\n" for p in l.get("prints") or [])
                    if l.get("value") is not None:
                        t += l["val_text"] + "\n"
                    return t
                all_ok = la.get("ok") and lb is not None and lb.get("ok")
                probs = []
                if all_ok:
                    if rc3 != 0:
                        probs.append(f"exit status {rc3} although both inputs succeed")
                    if out3 != text(la) + text(lb):
                        probs.append(f"stdout {out3!r} differs from {text(la) + text(lb)!r}")
                else:
                    if rc3 == 0:
                        probs.append("exit status 0 although an input fails")
                    if la.get("ok") and not out3.startswith(text(la)):
                        probs.append(f"output of the succeeding file input is missing: {out3!r}")
                if probs:
                    sh.violation(dict(case, form="file+-e", cut=cut), "[file + -e] " + "; ".join(probs))
                sh.nontrivial(code, "file+-e", cut)
            if len(sh.samples) < 2:
                sh.sample({"lines": lines, "exit": rc1, "stdout": out1[:200], "stderr": err1[:200]})
    finally:
        shutil.rmtree(tmp, ignore_errors=True)


def replay(sh, case):
    w = get_worker()
    tmp = tempfile.mkdtemp(prefix="vf_c22_", dir=TARGET)
    try:
        home = os.path.join(tmp, "home")
        os.makedirs(home)
        code = "\n".join(case["lines"])
        lib = expected_from_library(w, code)
        path = os.path.join(tmp, "prog.nbt")
        open(path, "w").write(code)
        rc, out, err = run_cli([path], home, tmp)
        print("file run:", rc, repr(out), repr(err[:300]))
        sh.judged()
        judge(sh, case, "file", rc, out, err, lib)
        e_args = []
        for l in case["lines"]:
            e_args += ["-e", l]
        rc2, out2, err2 = run_cli(e_args, home, tmp)
        print("-e run:", rc2, repr(out2), repr(err2[:300]))
        judge(sh, case, "-e", rc2, out2, err2, lib)
    finally:
        shutil.rmtree(tmp, ignore_errors=True)


LEVEL_TEXT = ("Seeded differential exploration at process level: the real `numbat` binary (built from the current tree) runs "
              "generated programs as file, as -e arguments and combined; a monitor compares exit status, stdout and stderr "
              "with the library-level observation of the same code and across invocation forms, for successes and for "
              "failures planned at each stage and position.")
LEVEL_NOTE = ("Trusted: nbserve's observation of prints/result text as the reference for stdout; isolated HOME/XDG environment; "
              "currency units are avoided (no network).")
TECHNIQUE = "runtime monitoring: process-level differential monitor (CLI binary vs library observation, file vs -e)"
