"""Core of the runtime-monitoring harness: worker client, sharded runner, verdicts,
evidence, known findings.  Stdlib only."""
from __future__ import annotations

import hashlib
import json
import os
import random
import select
import signal
import struct
import subprocess
import sys
import time
import traceback
from concurrent.futures import ProcessPoolExecutor, as_completed

VERIF = os.path.dirname(os.path.dirname(os.path.abspath(__file__)))
REPO = os.environ.get("VERIF_REPO", "/repo")
TARGET = os.environ.get("VERIF_TARGET") or os.path.join(VERIF, "target")
EVIDENCE_DIR = os.environ.get("VERIF_EVIDENCE_DIR") or os.path.join(VERIF, "evidence")
REPLAY_DIR = os.environ.get("VERIF_REPLAY_DIR") or os.path.join(VERIF, "replays")
KNOWN_FILE = os.path.join(VERIF, "known_findings.jsonl")
NCPU = min(16, os.cpu_count() or 4)


# --------------------------------------------------------------------------------------
# worker client

class WorkerDied(Exception):
    def __init__(self, returncode, req):
        super().__init__(f"worker died rc={returncode}")
        self.returncode = returncode
        self.req = req


class WorkerTimeout(Exception):
    def __init__(self, req):
        super().__init__("worker timeout")
        self.req = req


class Worker:
    """One `nbserve` process. Synchronous: one request in flight, so a crash is
    attributed to exactly that request."""

    def __init__(self, profile="checked", env=None, bootstrap=True):
        self.profile = profile
        self.binary = os.path.join(TARGET, profile, "nbserve")
        self.env = dict(os.environ)
        self.env.setdefault("TZ", "UTC")
        if env:
            self.env.update(env)
        self.proc = None
        self.buf = b""
        self.restarts = 0
        self.bootstrap = bootstrap
        self._sid = 0
        self.start()

    def start(self):
        def limit():
            # safety net for the machine: an input that asks for absurd amounts of memory kills
            # only its worker (allocation failure aborts the process)
            import resource
            lim = int(self.env.get("NBSERVE_MEM_GB", "12")) << 30
            resource.setrlimit(resource.RLIMIT_AS, (lim, lim))
        self.proc = subprocess.Popen(
            [self.binary], stdin=subprocess.PIPE, stdout=subprocess.PIPE,
            stderr=subprocess.DEVNULL, env=self.env, bufsize=0, preexec_fn=limit)
        self.buf = b""
        if self.bootstrap:
            r = self.call({"op": "new", "sid": "p", "use": ["prelude"]}, timeout=120)
            if not r.get("ok"):
                raise RuntimeError(f"cannot load prelude: {json.dumps(r)[:2000]}")

    def close(self):
        if self.proc is not None:
            try:
                self.proc.kill()
            except Exception:
                pass
            try:
                self.proc.wait(timeout=5)
            except Exception:
                pass
            self.proc = None

    def restart(self):
        self.close()
        self.restarts += 1
        self.start()

    def call(self, req, timeout=60.0):
        data = (json.dumps(req) + "\n").encode()
        try:
            self.proc.stdin.write(data)
            self.proc.stdin.flush()
        except (BrokenPipeError, OSError):
            rc = self.proc.poll()
            raise WorkerDied(rc, req)
        fd = self.proc.stdout.fileno()
        deadline = time.monotonic() + timeout
        while True:
            nl = self.buf.find(b"\n")
            if nl >= 0:
                line = self.buf[:nl]
                self.buf = self.buf[nl + 1:]
                return json.loads(line)
            remaining = deadline - time.monotonic()
            if remaining <= 0:
                self.proc.kill()
                self.proc.wait()
                raise WorkerTimeout(req)
            r, _, _ = select.select([fd], [], [], min(remaining, 1.0))
            if r:
                chunk = os.read(fd, 1 << 20)
                if not chunk:
                    self.proc.wait()
                    raise WorkerDied(self.proc.returncode, req)
                self.buf += chunk

    # -- convenience -------------------------------------------------------------
    def fresh_sid(self, prefix="s"):
        self._sid += 1
        return f"{prefix}{self._sid}"

    def fork(self, from_="p", sid=None):
        sid = sid or self.fresh_sid()
        r = self.call({"op": "fork", "sid": sid, "from": from_})
        if not r.get("ok"):
            raise RuntimeError(f"fork failed: {r}")
        return sid

    def new(self, sid=None, use=("prelude",), extra_modules=None, timeout=120):
        sid = sid or self.fresh_sid()
        req = {"op": "new", "sid": sid, "use": list(use)}
        if extra_modules:
            req["extra_modules"] = extra_modules
        return sid, self.call(req, timeout=timeout)

    def drop(self, sid):
        self.call({"op": "drop", "sid": sid})

    def eval(self, sid, code, timeout=60.0, **opts):
        req = {"op": "eval", "sid": sid, "code": code}
        req.update(opts)
        return self.call(req, timeout=timeout)

    def batch(self, reqs, timeout=120.0):
        r = self.call({"op": "batch", "reqs": reqs}, timeout=timeout)
        if "res" not in r:
            raise RuntimeError(f"batch failed: {json.dumps(r)[:1500]} for {json.dumps(reqs)[:1500]}")
        return r["res"]


# --------------------------------------------------------------------------------------
# floats

def bits_to_float(b: str) -> float:
    return struct.unpack(">d", bytes.fromhex(b))[0]


def float_to_bits(x: float) -> str:
    return struct.pack(">d", x).hex()


def qval(q) -> float:
    """magnitude of a structured quantity"""
    return bits_to_float(q["v"]["b"])


# --------------------------------------------------------------------------------------
# known findings

def load_known():
    entries = []
    if os.path.exists(KNOWN_FILE):
        with open(KNOWN_FILE) as f:
            for line in f:
                line = line.strip()
                if line and not line.startswith("#"):
                    entries.append(json.loads(line))
    return entries


def known_for(prop_id):
    """{finding id: entry} of entries with status 'known' for this property"""
    return {e["id"]: e for e in load_known()
            if e.get("status") == "known" and e.get("property") == prop_id}


# --------------------------------------------------------------------------------------
# shard results

class Shard:
    """Accumulates what one shard observed. Picklable via .result()."""

    def __init__(self, prop_id, spec):
        self.prop_id = prop_id
        self.spec = spec
        self.evaluations = 0
        self.distinct = set()
        self.extra_distinct = 0      # distinct cases counted by the server side (too many to ship as fingerprints)
        self.samples = []
        self.violations = []
        self.known = {}
        self.inconclusive = []
        self.counters = {}
        self.sample_cap = 4

    def fingerprint(self, *parts):
        h = hashlib.blake2b(repr(parts).encode(), digest_size=8).digest()
        return int.from_bytes(h, "big")

    def judged(self, n=1):
        self.evaluations += n

    def nontrivial(self, *parts):
        self.distinct.add(self.fingerprint(*parts))

    def count(self, key, n=1):
        self.counters[key] = self.counters.get(key, 0) + n

    def count_in(self, group, key, n=1):
        g = self.counters.setdefault(group, {})
        g[key] = g.get(key, 0) + n

    def sample(self, s):
        if len(self.samples) < self.sample_cap:
            self.samples.append(s)

    def violation(self, case, why, observed=None):
        self.violations.append({"case": case, "why": why, "observed": observed})

    def known_hit(self, fid, witness=None):
        k = self.known.setdefault(fid, {"count": 0, "witness": None})
        k["count"] += 1
        if k["witness"] is None and witness is not None:
            k["witness"] = witness

    def inconclusive_case(self, reason, case=None):
        self.inconclusive.append({"reason": reason, "case": case})

    def _capped_violations(self, cap=60):
        """at most `cap` violations, preferring one per distinct signature/reason"""
        out, seen, rest = [], set(), []
        for v in self.violations:
            case = v.get("case") if isinstance(v.get("case"), dict) else {}
            key = case.get("signature") or v["why"][:100]
            if key in seen:
                rest.append(v)
            else:
                seen.add(key)
                out.append(v)
        return (out + rest)[:cap]

    def result(self):
        return {
            "spec": self.spec, "evaluations": self.evaluations,
            "distinct": self.distinct, "extra_distinct": self.extra_distinct, "samples": self.samples,
            "violations": self._capped_violations(), "n_violations": len(self.violations),
            "known": self.known, "inconclusive": self.inconclusive[:50],
            "n_inconclusive": len(self.inconclusive), "counters": self.counters,
        }


def merge_counters(dst, src):
    for k, v in src.items():
        if isinstance(v, dict):
            merge_counters(dst.setdefault(k, {}), v)
        elif isinstance(v, (int, float)):
            dst[k] = dst.get(k, 0) + v
        else:
            dst[k] = v


# --------------------------------------------------------------------------------------
# process pool plumbing

_WORKER = None
_WORKER_PROFILE = None


def get_worker(profile="checked", env=None):
    global _WORKER, _WORKER_PROFILE
    key = (profile, tuple(sorted((env or {}).items())))
    if _WORKER is None or _WORKER_PROFILE != key:
        if _WORKER is not None:
            _WORKER.close()
        _WORKER = Worker(profile=profile, env=env)
        _WORKER_PROFILE = key
    elif _WORKER.proc is None or _WORKER.proc.poll() is not None:
        _WORKER.restart()
    return _WORKER


def _run_shard(modname, prop_id, spec):
    import importlib
    signal.signal(signal.SIGINT, signal.SIG_IGN)
    sys.setrecursionlimit(200000)     # deeply nested values come back as deeply nested JSON
    mod = importlib.import_module(modname)
    sh = Shard(prop_id, spec)
    try:
        mod.run_shard(sh, spec)
    except Exception as e:  # harness problem: inconclusive, never a violation
        sh.inconclusive_case(f"harness exception: {e!r}\n{traceback.format_exc()}")
    return sh.result()


def seed_for(seed, prop_id, shard_idx):
    h = hashlib.blake2b(f"{seed}/{prop_id}/{shard_idx}".encode(), digest_size=8).digest()
    return int.from_bytes(h, "big")


def rng_for(seed, prop_id, shard_idx):
    return random.Random(seed_for(seed, prop_id, shard_idx))


# --------------------------------------------------------------------------------------
# top-level run of one property

def run_property(mod, prop_id, tier, seed, replay=None):
    t0 = time.time()
    os.makedirs(EVIDENCE_DIR, exist_ok=True)
    known_entries = known_for(prop_id)

    if replay is not None:
        return run_replay(mod, prop_id, replay)

    specs = mod.shards(tier, seed)
    merged = {
        "evaluations": 0, "distinct": set(), "extra_distinct": 0, "samples": [], "violations": [],
        "n_violations": 0, "known": {}, "inconclusive": [], "n_inconclusive": 0,
        "counters": {},
    }
    nworkers = min(NCPU, max(1, len(specs)))
    with ProcessPoolExecutor(max_workers=nworkers) as ex:
        futs = [ex.submit(_run_shard, mod.__name__, prop_id, spec) for spec in specs]
        for fut in as_completed(futs):
            try:
                r = fut.result()
            except Exception as e:
                merged["inconclusive"].append({"reason": f"shard crashed: {e!r}"})
                merged["n_inconclusive"] += 1
                continue
            merged["evaluations"] += r["evaluations"]
            merged["distinct"] |= r["distinct"]
            merged["extra_distinct"] += r.get("extra_distinct", 0)
            for s in r["samples"]:
                if len(merged["samples"]) < 8:
                    merged["samples"].append(s)
            merged["violations"].extend(r["violations"])
            merged["n_violations"] += r["n_violations"]
            for fid, k in r["known"].items():
                m = merged["known"].setdefault(fid, {"count": 0, "witness": None})
                m["count"] += k["count"]
                if m["witness"] is None:
                    m["witness"] = k["witness"]
            merged["inconclusive"].extend(r["inconclusive"])
            merged["n_inconclusive"] += r["n_inconclusive"]
            merge_counters(merged["counters"], r["counters"])

    # known-finding hits that are not listed in the file are violations
    unlisted = [fid for fid in merged["known"] if fid not in known_entries]
    fixed = {e.get("id"): e for e in load_known() if e.get("status") == "fixed" and e.get("property") == prop_id}
    for fid in unlisted:
        k = merged["known"].pop(fid)
        if fid in fixed:
            why = (f"the defect {fid} (recorded as fixed by {str(fixed[fid].get('commit'))[:10]}) is back: "
                   f"{fixed[fid].get('what', '')[:300]}")
        else:
            why = f"a violation with the signature of {fid} was observed, and {fid} is not listed as a known finding"
        w = k["witness"]
        if isinstance(w, dict) and w.get("why"):
            why += f" — witness: {str(w.get('why'))[:300]}"
        merged["violations"].append({"case": w, "why": why, "observed": None})
        merged["n_violations"] += k["count"]

    wall = time.time() - t0
    floor = getattr(mod, "FLOOR", {}).get(tier, 2)
    n_distinct = len(merged["distinct"]) + merged["extra_distinct"]
    status = "held"
    if merged["n_violations"] > 0:
        status = "violated"
    elif n_distinct < floor or merged["evaluations"] < 1:
        status = "inconclusive"
    # harness exceptions make the run inconclusive unless a violation was found
    elif any("harness exception" in (i.get("reason") or "") or "shard crashed" in (i.get("reason") or "")
             for i in merged["inconclusive"]):
        status = "inconclusive"

    not_reproduced = []
    for fid in getattr(mod, "EXPECTED_KNOWN", lambda tier: [])(tier):
        if fid in known_entries and fid not in merged["known"]:
            not_reproduced.append(fid)

    coverage = {
        "evaluations": merged["evaluations"],
        "distinct_nontrivial": n_distinct,
        "rule": getattr(mod, "RULE", ""),
        "samples": merged["samples"] or [{"note": "no sample recorded"}],
        "exhaustive": bool(getattr(mod, "EXHAUSTIVE", {}).get(tier, False)),
        "counters": merged["counters"],
        "known_findings_hit": {fid: k["count"] for fid, k in merged["known"].items()},
        "known_findings_not_reproduced": not_reproduced,
        "inconclusive_cases": merged["n_inconclusive"],
        "inconclusive_samples": merged["inconclusive"][:5],
        "shards": len(specs),
        "workers": nworkers,
        "status": status,
        "build_profile": getattr(mod, "PROFILE", "checked"),
        "numbat_rev": repo_rev(),
    }
    evidence = {
        "property_id": prop_id, "tier": tier, "seed": int(seed),
        "level": getattr(mod, "LEVEL", "exploration"),
        "coverage": coverage,
        "assumptions": getattr(mod, "ASSUMPTIONS", []),
        "wall_s": round(wall, 3),
        "violations": merged["n_violations"],
    }
    with open(os.path.join(EVIDENCE_DIR, f"{prop_id}.json"), "w") as f:
        json.dump(evidence, f, indent=1, default=str)
    # a copy per tier, so that a later quick run does not erase what the last thorough run observed
    os.makedirs(os.path.join(EVIDENCE_DIR, tier), exist_ok=True)
    with open(os.path.join(EVIDENCE_DIR, tier, f"{prop_id}.json"), "w") as f:
        json.dump(evidence, f, indent=1, default=str)

    for fid, k in sorted(merged["known"].items()):
        e = known_entries[fid]
        print(f"KNOWN-FINDING: property={prop_id} {fid}: {e['what']} (hits this run: {k['count']})")
    print(f"[{prop_id}] tier={tier} seed={seed} evaluations={merged['evaluations']} "
          f"distinct_nontrivial={n_distinct} violations={merged['n_violations']} "
          f"inconclusive_cases={merged['n_inconclusive']} wall={wall:.1f}s status={status}")
    if status == "violated":
        os.makedirs(os.path.join(REPLAY_DIR, prop_id), exist_ok=True)
        seen = set()
        for i, v in enumerate(merged["violations"]):
            case = v.get("case") if isinstance(v.get("case"), dict) else {}
            key = case.get("signature") or v["why"][:100]
            if key in seen or len(seen) >= 25:
                continue
            seen.add(key)
            path = os.path.join(REPLAY_DIR, prop_id, f"case_{tier}_{seed}_{i}.json")
            with open(path, "w") as f:
                json.dump({"property": prop_id, "tier": tier, "seed": seed, **v}, f, indent=1, default=str)
            print(f"VIOLATION property={prop_id} replay={path}")
            print(f"  why: {v['why'][:600]}")
        return 1
    if status == "inconclusive":
        reasons = "; ".join((i.get("reason") or "")[:300] for i in merged["inconclusive"][:3])
        print(f"INCONCLUSIVE property={prop_id} reason=distinct={n_distinct} floor={floor} {reasons}")
        return 2
    return 0


def run_replay(mod, prop_id, path):
    with open(path) as f:
        rec = json.load(f)
    sh = Shard(prop_id, {"replay": True})
    if not hasattr(mod, "replay"):
        print(f"[{prop_id}] no replay support")
        return 2
    mod.replay(sh, rec["case"])
    known_entries = known_for(prop_id)
    for fid in list(sh.known):
        if fid in known_entries:
            print(f"KNOWN-FINDING: property={prop_id} {fid}: {known_entries[fid]['what']}")
    if sh.violations:
        for v in sh.violations[:5]:
            print(f"VIOLATION property={prop_id} replay={path}")
            print(f"  why: {v['why'][:600]}")
        return 1
    print(f"[{prop_id}] replay did not reproduce a violation")
    return 0


_REV = None


def repo_rev():
    global _REV
    if _REV is None:
        try:
            rev = subprocess.run(["git", "-C", REPO, "rev-parse", "--short", "HEAD"],
                                 capture_output=True, text=True).stdout.strip()
            dirty = subprocess.run(["git", "-C", REPO, "status", "--porcelain"],
                                   capture_output=True, text=True).stdout.strip()
            _REV = rev + ("+dirty" if dirty else "")
        except Exception:
            _REV = "unknown"
    return _REV
