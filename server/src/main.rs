//! nbserve — a thin instrumented session server around `numbat::Context`.
//!
//! One JSON request per line on stdin, one JSON response per line on stdout.
//! The server contains no oracle logic: it runs the real code and reports what
//! it observed (structured values, types, diagnostics, VM events, panics).

mod astdump;
mod listcheck;
mod out;

use std::collections::HashMap;
use std::io::{BufRead, Write};
use std::panic::{catch_unwind, AssertUnwindSafe};
use std::path::PathBuf;
use std::sync::{Arc, Mutex};

use numbat::diagnostic::{ErrorDiagnostic, ResolverDiagnostic};
use numbat::html_formatter::{HtmlFormatter, HtmlWriter};
use numbat::buffered_writer::BufferedWriter;
use numbat::markup::{Formatter, Markup, PlainTextFormatter};
use numbat::module_importer::{BuiltinModuleImporter, ChainedImporter, ModuleImporter};
use numbat::resolver::{CodeSource, ModulePath};
use numbat::verif;
use numbat::{Context, FormatOptions, InterpreterResult, InterpreterSettings, NumbatError};
use serde_json::{json, Map, Value as J};

// ---------------------------------------------------------------------------------
// panic capture

#[derive(Clone, Default)]
struct PanicInfo {
    msg: String,
    loc: String,
    frame: String,
}

static LAST_PANIC: Mutex<Option<PanicInfo>> = Mutex::new(None);

fn install_panic_hook() {
    std::panic::set_hook(Box::new(|info| {
        let msg = if let Some(s) = info.payload().downcast_ref::<&str>() {
            (*s).to_string()
        } else if let Some(s) = info.payload().downcast_ref::<String>() {
            s.clone()
        } else {
            "<non-string panic payload>".to_string()
        };
        let loc = info
            .location()
            .map(|l| format!("{}:{}:{}", l.file(), l.line(), l.column()))
            .unwrap_or_default();
        let bt = std::backtrace::Backtrace::force_capture().to_string();
        if std::env::var("NBSERVE_DEBUG_BT").is_ok() { eprintln!("{bt}"); }
        // First frame whose source file lies in numbat/src (and is not a hook):
        // "<file relative to numbat/src>::<function>" — stable under line shifts.
        let mut frame = String::new();
        let mut last_fn = String::new();
        for line in bt.lines() {
            let l = line.trim();
            if let Some(rest) = l.strip_prefix("at ") {
                if let Some(pos) = rest.find("/numbat/src/") {
                    let rel = &rest[pos + "/numbat/src/".len()..];
                    let file = rel.split(':').next().unwrap_or(rel);
                    if file != "verif.rs" {
                        frame = format!("{file}::{last_fn}");
                        break;
                    }
                }
            } else if let Some(pos) = l.find(": ") {
                let sym = strip_hash(&l[pos + 2..]);
                // drop generic arguments
                last_fn = sym.split('<').next().unwrap_or(&sym).to_string();
                if last_fn.is_empty() {
                    last_fn = sym;
                }
            }
        }
        *LAST_PANIC.lock().unwrap() = Some(PanicInfo { msg, loc, frame });
    }));
}

fn strip_hash(sym: &str) -> String {
    // remove trailing ::h0123456789abcdef
    if let Some(pos) = sym.rfind("::h") {
        let tail = &sym[pos + 3..];
        if tail.len() == 16 && tail.chars().all(|c| c.is_ascii_hexdigit()) {
            return sym[..pos].to_string();
        }
    }
    sym.to_string()
}

fn take_panic() -> J {
    let p = LAST_PANIC.lock().unwrap().take().unwrap_or_default();
    json!({"msg": p.msg, "loc": p.loc, "frame": p.frame})
}

// ---------------------------------------------------------------------------------
// fault-injecting importer: serves modules given in the `new` request

struct TableImporter {
    modules: HashMap<String, String>,
}

impl ModuleImporter for TableImporter {
    fn import(&self, path: &ModulePath) -> Option<(String, Option<PathBuf>)> {
        let key = path
            .0
            .iter()
            .map(|s| s.as_str())
            .collect::<Vec<_>>()
            .join("::");
        self.modules
            .get(&key)
            .map(|code| (code.clone(), Some(PathBuf::from(format!("<vf>/{key}.nbt")))))
    }

    fn list_modules(&self) -> Vec<ModulePath> {
        self.modules
            .keys()
            .map(|k| ModulePath(k.split("::").map(|s| s.into()).collect()))
            .collect()
    }
}

// ---------------------------------------------------------------------------------

struct Server {
    sessions: HashMap<String, Context>,
}

fn plain(m: &Markup) -> String {
    PlainTextFormatter {}.format(m, false).to_string()
}

fn html(m: &Markup) -> String {
    HtmlFormatter {}.format(m, false).to_string()
}

fn format_options(req: &J) -> FormatOptions {
    let mut o = FormatOptions::default();
    if let Some(f) = req.get("fmt") {
        if let Some(s) = f.get("sep").and_then(|v| v.as_str()) {
            o.digit_separator = s.to_string();
        }
        if let Some(n) = f.get("threshold").and_then(|v| v.as_u64()) {
            o.digit_grouping_threshold = n as usize;
        }
        if let Some(n) = f.get("digits").and_then(|v| v.as_u64()) {
            o.significant_digits = n as usize;
        }
        if let Some(s) = f.get("datetime").and_then(|v| v.as_str()) {
            o.datetime_format = s.to_string();
        }
    }
    o
}

/// Render diagnostics exactly as the front ends do: codespan `term::emit` into a plain
/// (no colour) buffer and into numbat's `HtmlWriter`. Rendering runs under `catch_unwind`.
fn render_diagnostics(ctx: &Context, err: &NumbatError) -> J {
    use codespan_reporting::term::{self, Config};
    let resolver = ctx.resolver();
    let res = catch_unwind(AssertUnwindSafe(|| {
        let diags = match err {
            NumbatError::ResolverError(e) => e.diagnostics(),
            NumbatError::NameResolutionError(e) => e.diagnostics(),
            NumbatError::TypeCheckError(e) => e.diagnostics(),
            NumbatError::RuntimeError(e) => ResolverDiagnostic {
                resolver,
                error: e,
            }
            .diagnostics(),
        };
        let config = Config::default();
        let mut plain_writer = termcolor::NoColor::new(Vec::<u8>::new());
        let mut html_writer = HtmlWriter::new();
        for d in &diags {
            term::emit(&mut plain_writer, &config, &resolver.files, d).unwrap();
            term::emit(&mut html_writer, &config, &resolver.files, d).unwrap();
        }
        (
            String::from_utf8_lossy(plain_writer.get_ref()).to_string(),
            BufferedWriter::to_string(&html_writer),
            diags.len(),
        )
    }));
    match res {
        Ok((p, h, n)) => json!({"plain": p, "html": h, "count": n}),
        Err(_) => json!({"panic": take_panic()}),
    }
}

/// Name of the enum variant (two levels) taken from the Debug rendering.
fn variant_name(debug: &str) -> String {
    fn ident_prefix(s: &str) -> &str {
        let end = s
            .char_indices()
            .find(|(_, c)| !(c.is_alphanumeric() || *c == '_'))
            .map(|(i, _)| i)
            .unwrap_or(s.len());
        &s[..end]
    }
    let first = ident_prefix(debug);
    let rest = &debug[first.len()..];
    if let Some(r) = rest.strip_prefix('(') {
        let second = ident_prefix(r);
        let after = &r[second.len()..];
        if !second.is_empty()
            && second.chars().next().unwrap().is_uppercase()
            && (after.starts_with('(')
                || after.starts_with(" {")
                || after.starts_with(')')
                || after.starts_with('{'))
        {
            return format!("{first}::{second}");
        }
    }
    first.to_string()
}

fn error_json(ctx: &Context, err: &NumbatError, render: bool) -> Map<String, J> {
    let mut m = Map::new();
    let (stage, kind) = match err {
        NumbatError::ResolverError(e) => ("resolver", variant_name(&format!("{e:?}"))),
        NumbatError::NameResolutionError(e) => ("name", variant_name(&format!("{e:?}"))),
        NumbatError::TypeCheckError(e) => ("type", variant_name(&format!("{e:?}"))),
        NumbatError::RuntimeError(e) => ("runtime", variant_name(&format!("{:?}", e.kind))),
    };
    m.insert("stage".into(), json!(stage));
    m.insert("kind".into(), json!(kind));
    // Display impls format numbers and units (numbat code): a panic there is an observation
    match catch_unwind(AssertUnwindSafe(|| err.to_string())) {
        Ok(msg) => {
            m.insert("msg".into(), json!(msg));
        }
        Err(_) => {
            m.insert("msg".into(), json!("<panic while formatting the error message>"));
            m.insert("msg_panic".into(), take_panic());
        }
    }
    if let NumbatError::RuntimeError(e) = err {
        m.insert(
            "backtrace".into(),
            J::Array(
                e.backtrace
                    .iter()
                    .map(|(name, _)| json!(name.as_str()))
                    .collect(),
            ),
        );
    }
    if let NumbatError::TypeCheckError(numbat::TypeCheckError::IncompatibleDimensions(e)) = err {
        m.insert("operation".into(), json!(e.operation.to_string()));
    }
    if render {
        m.insert("diag".into(), render_diagnostics(ctx, err));
    }
    m
}

fn digest_json(ctx: &Context) -> J {
    let (stack, frames, main_len, nconst) = verif::vm_digest(ctx);
    json!({"stack": stack, "frames": frames, "main_len": main_len, "nconst": nconst,
           "nglobals": verif::num_globals(ctx)})
}

impl Server {
    fn handle(&mut self, req: &J) -> J {
        let op = req.get("op").and_then(|v| v.as_str()).unwrap_or("");
        out::SHARING.with(|s| s.set(req.get("sharing").and_then(|v| v.as_bool()).unwrap_or(false)));
        match op {
            "ping" => json!({"ok": true}),
            "batch" => {
                let mut res = vec![];
                if let Some(reqs) = req.get("reqs").and_then(|v| v.as_array()) {
                    for r in reqs {
                        res.push(self.handle(r));
                    }
                }
                json!({"ok": true, "res": res})
            }
            "new" => self.op_new(req),
            "fork" => {
                let from = req["from"].as_str().unwrap_or("");
                let sid = req["sid"].as_str().unwrap_or("");
                match self.sessions.get(from) {
                    Some(c) => {
                        let c2 = c.clone();
                        self.sessions.insert(sid.to_string(), c2);
                        json!({"ok": true})
                    }
                    None => json!({"ok": false, "harness_error": "no such session"}),
                }
            }
            "drop" => {
                let sid = req["sid"].as_str().unwrap_or("");
                self.sessions.remove(sid);
                json!({"ok": true})
            }
            "eval" => self.with_session(req, |ctx, req| op_eval(ctx, req)),
            "raw_global" => self.with_session(req, |ctx, req| {
                let mut res = Map::new();
                if let Some(names) = req.get("names").and_then(|v| v.as_array()) {
                    for n in names {
                        let n = n.as_str().unwrap_or("");
                        res.insert(
                            n.to_string(),
                            verif::raw_global(ctx, n)
                                .map(out::value_json)
                                .unwrap_or(J::Null),
                        );
                    }
                }
                json!({"ok": true, "values": res, "digest": digest_json(ctx)})
            }),
            "names" => self.with_session(req, |ctx, _| op_names(ctx)),
            // `info <keyword>` and `list`: the other two kinds of output the front ends render (as HTML in the web version)
            "info" => self.with_session(req, |ctx, req| {
                let kw = req.get("keyword").and_then(|v| v.as_str()).unwrap_or("").to_string();
                match catch_unwind(AssertUnwindSafe(|| ctx.print_info_for_keyword(&kw))) {
                    Ok(m) => json!({"ok": true, "plain": plain(&m), "html": html(&m)}),
                    Err(_) => json!({"ok": false, "status": "panic", "panic": take_panic()}),
                }
            }),
            "environment" => self.with_session(req, |ctx, _| {
                match catch_unwind(AssertUnwindSafe(|| ctx.print_environment())) {
                    Ok(m) => json!({"ok": true, "plain": plain(&m), "html": html(&m)}),
                    Err(_) => json!({"ok": false, "status": "panic", "panic": take_panic()}),
                }
            }),
            "unitdb" => self.with_session(req, |ctx, _| out::unitdb_json(ctx)),
            "resolve" => self.with_session(req, |ctx, req| {
                let mut res = vec![];
                if let Some(ids) = req.get("idents").and_then(|v| v.as_array()) {
                    for id in ids {
                        let id = id.as_str().unwrap_or("");
                        res.push(match verif::resolve_identifier(ctx, id) {
                            verif::PrefixParserResult::Identifier(_) => J::Null,
                            verif::PrefixParserResult::UnitIdentifier(_, prefix, name, full) => {
                                json!({"prefix": out::prefix_json(&prefix), "name": name.as_str(), "full": full.as_str()})
                            }
                        });
                    }
                }
                json!({"ok": true, "res": res})
            }),
            "examples" => self.with_session(req, |ctx, _| {
                let mut res = vec![];
                for f in ctx.functions() {
                    let module = match &f.code_source {
                        CodeSource::Module(path, _) => path
                            .0
                            .iter()
                            .map(|s| s.as_str())
                            .collect::<Vec<_>>()
                            .join("::"),
                        other => format!("{other:?}"),
                    };
                    res.push(json!({
                        "fn_name": f.fn_name.as_str(),
                        "signature": f.signature_str.as_str(),
                        "module": module,
                        "examples": f.examples.iter().map(|(c, d)| json!([c.as_str(), d.as_ref().map(|d| d.as_str())])).collect::<Vec<_>>(),
                    }));
                }
                json!({"ok": true, "functions": res})
            }),
            "modules" => self.with_session(req, |ctx, _| {
                let mut mods: Vec<String> = ctx.list_modules().map(|m| m.to_string()).collect();
                mods.sort();
                json!({"ok": true, "modules": mods})
            }),
            "parse" => astdump::op_parse(req),
            "format" => op_format(req),
            "history_save" => self.with_session(req, op_history_save),
            "listcheck" => listcheck::op_listcheck(req),
            "listrun" => listcheck::op_listrun(req),
            "listfuzz" => listcheck::op_listfuzz(req),
            _ => json!({"ok": false, "harness_error": format!("unknown op {op}")}),
        }
    }

    fn with_session(&mut self, req: &J, f: impl FnOnce(&mut Context, &J) -> J) -> J {
        let sid = req.get("sid").and_then(|v| v.as_str()).unwrap_or("");
        match self.sessions.get_mut(sid) {
            Some(ctx) => f(ctx, req),
            None => json!({"ok": false, "harness_error": format!("no such session {sid}")}),
        }
    }

    fn op_new(&mut self, req: &J) -> J {
        let sid = req["sid"].as_str().unwrap_or("").to_string();
        let mut table = HashMap::new();
        if let Some(mods) = req.get("extra_modules").and_then(|v| v.as_object()) {
            for (k, v) in mods {
                table.insert(k.clone(), v.as_str().unwrap_or("").to_string());
            }
        }
        let importer = ChainedImporter::new(
            Box::new(TableImporter { modules: table }),
            Box::new(BuiltinModuleImporter::default()),
        );
        let mut ctx = Context::new(importer);
        ctx.set_terminal_width(Some(100));
        let mut loaded = vec![];
        if let Some(mods) = req.get("use").and_then(|v| v.as_array()) {
            for m in mods {
                let m = m.as_str().unwrap_or("");
                let code = format!("use {m}");
                let mut settings = InterpreterSettings {
                    print_fn: Box::new(|_: &Markup| {}),
                };
                let r = catch_unwind(AssertUnwindSafe(|| {
                    ctx.interpret_with_settings(&mut settings, &code, CodeSource::Internal)
                        .map(|_| ())
                        .map_err(|e| *e)
                }));
                match r {
                    Ok(Ok(())) => loaded.push(m.to_string()),
                    Ok(Err(e)) => {
                        let mut m_ = error_json(&ctx, &e, true);
                        m_.insert("ok".into(), json!(false));
                        m_.insert("status".into(), json!("err"));
                        m_.insert("failed_module".into(), json!(m));
                        return J::Object(m_);
                    }
                    Err(_) => {
                        return json!({"ok": false, "status": "panic", "panic": take_panic(), "failed_module": m});
                    }
                }
            }
        }
        self.sessions.insert(sid, ctx);
        json!({"ok": true, "loaded": loaded})
    }
}

fn op_names(ctx: &Context) -> J {
    let mut vars: Vec<String> = ctx.variable_names().map(|s| s.to_string()).collect();
    vars.sort();
    let mut funcs: Vec<(String, String)> = ctx
        .functions()
        .map(|f| (f.fn_name.to_string(), f.signature_str.to_string()))
        .collect();
    funcs.sort();
    let units: Vec<Vec<String>> = ctx
        .unit_names()
        .iter()
        .map(|v| v.iter().map(|s| s.to_string()).collect())
        .collect();
    let dims: Vec<String> = ctx.dimension_names().iter().map(|s| s.to_string()).collect();
    let imported: Vec<String> = ctx
        .resolver()
        .imported_modules
        .iter()
        .map(|m| m.to_string())
        .collect();
    json!({"ok": true, "variables": vars, "functions": funcs, "units": units,
           "dimensions": dims, "imported": imported, "digest": digest_json(ctx)})
}

fn op_eval(ctx: &mut Context, req: &J) -> J {
    let code = req["code"].as_str().unwrap_or("");
    let trace = req.get("trace").and_then(|v| v.as_bool()).unwrap_or(false);
    let want_nodes = req.get("nodes").and_then(|v| v.as_bool()).unwrap_or(false);
    let want_stmts = req.get("stmts").and_then(|v| v.as_bool()).unwrap_or(true);
    let want_html = req.get("html").and_then(|v| v.as_bool()).unwrap_or(false);
    let render = req.get("render").and_then(|v| v.as_bool()).unwrap_or(true);
    let want_value = req.get("value").and_then(|v| v.as_bool()).unwrap_or(true);
    let opts = format_options(req);

    let prints: Arc<Mutex<Vec<Markup>>> = Arc::new(Mutex::new(vec![]));
    let prints_c = prints.clone();
    let mut settings = InterpreterSettings {
        print_fn: Box::new(move |m: &Markup| {
            prints_c.lock().unwrap().push(m.clone());
        }),
    };

    let _ = verif::take_opcode_histogram();
    if trace {
        verif::start_trace();
    }
    let result = catch_unwind(AssertUnwindSafe(|| {
        ctx.interpret_with_settings(&mut settings, code, CodeSource::Text)
    }));
    let (events, dropped) = verif::take_trace();
    let opcodes = verif::take_opcode_histogram();

    let mut m = Map::new();
    let prints_json = |m: &mut Map<String, J>| {
        let p = prints.lock().unwrap();
        m.insert(
            "prints".into(),
            J::Array(p.iter().map(|x| json!(plain(x))).collect()),
        );
        if want_html {
            m.insert(
                "prints_html".into(),
                J::Array(p.iter().map(|x| json!(html(x))).collect()),
            );
        }
    };
    match result {
        Err(_) => {
            m.insert("ok".into(), json!(false));
            m.insert("status".into(), json!("panic"));
            m.insert("panic".into(), take_panic());
            prints_json(&mut m);
        }
        Ok(Err(e)) => {
            m.insert("ok".into(), json!(false));
            // formatting the error message runs numbat code as well (Display impls): observe panics there
            match catch_unwind(AssertUnwindSafe(|| error_json(ctx, &e, render))) {
                Ok(ej) => {
                    m.insert("status".into(), json!("err"));
                    for (k, v) in ej {
                        m.insert(k, v);
                    }
                }
                Err(_) => {
                    m.insert("status".into(), json!("panic"));
                    m.insert("panic".into(), take_panic());
                    m.insert("panic_in".into(), json!("error_display"));
                }
            }
            prints_json(&mut m);
        }
        Ok(Ok((stmts, res))) => {
            m.insert("ok".into(), json!(true));
            m.insert("status".into(), json!("ok"));
            prints_json(&mut m);
            // rendering of results can panic as well (formatting code): observe it
            let rendered = catch_unwind(AssertUnwindSafe(|| {
                let registry = ctx.dimension_registry().clone();
                let markup = res.to_markup(stmts.last(), &registry, true, true, &opts);
                let mut r = Map::new();
                r.insert("out_text".into(), json!(plain(&markup)));
                if want_html {
                    r.insert("out_html".into(), json!(html(&markup)));
                }
                match &res {
                    InterpreterResult::Value(v) => {
                        if want_value {
                            r.insert("value".into(), out::value_json(v));
                        } else {
                            r.insert("value".into(), json!({"t": "omitted"}));
                        }
                        r.insert("val_text".into(), json!(plain(&v.pretty_print_with(&opts))));
                    }
                    InterpreterResult::Continue => {
                        r.insert("value".into(), J::Null);
                    }
                }
                if want_stmts {
                    r.insert(
                        "stmts".into(),
                        J::Array(stmts.iter().map(|s| out::statement_json(s, want_html)).collect()),
                    );
                }
                if want_nodes {
                    let mut nodes = vec![];
                    for s in &stmts {
                        out::collect_nodes(s, &mut nodes);
                    }
                    r.insert("nodes".into(), J::Array(nodes));
                }
                r
            }));
            match rendered {
                Ok(r) => {
                    for (k, v) in r {
                        m.insert(k, v);
                    }
                }
                Err(_) => {
                    m.insert("ok".into(), json!(false));
                    m.insert("status".into(), json!("panic"));
                    m.insert("panic".into(), take_panic());
                    m.insert("panic_in".into(), json!("render"));
                }
            }
        }
    }
    if trace {
        m.insert(
            "events".into(),
            J::Array(events.iter().map(out::event_json).collect()),
        );
        m.insert("events_dropped".into(), json!(dropped));
    }
    m.insert(
        "opcodes".into(),
        J::Object(
            opcodes
                .iter()
                .map(|(b, n)| {
                    (
                        verif::opcode_name(*b)
                            .map(|s| s.to_string())
                            .unwrap_or_else(|| format!("INVALID_{b}")),
                        json!(n),
                    )
                })
                .collect(),
        ),
    );
    m.insert("digest".into(), digest_json(ctx));
    J::Object(m)
}

/// `Value::pretty_print_with(opts)` of exact f64 values given as bit patterns.
fn op_format(req: &J) -> J {
    let opts = format_options(req);
    let mut res = vec![];
    if let Some(bits) = req.get("bits").and_then(|v| v.as_array()) {
        for b in bits {
            let b = u64::from_str_radix(b.as_str().unwrap_or("0"), 16).unwrap_or(0);
            let x = f64::from_bits(b);
            let r = catch_unwind(AssertUnwindSafe(|| {
                let v = numbat::value::Value::Quantity(verif::Quantity::from_scalar(x));
                plain(&v.pretty_print_with(&opts))
            }));
            res.push(match r {
                Ok(s) => json!(s),
                Err(_) => json!({"panic": take_panic()}),
            });
        }
    }
    json!({"ok": true, "res": res})
}

/// Drive the real `save` command over a `SessionHistory` filled from the request.
fn op_history_save(ctx: &mut Context, req: &J) -> J {
    use numbat::command::{CommandControlFlow, CommandRunner};
    use numbat::session_history::SessionHistory;
    let path = req["path"].as_str().unwrap_or("").to_string();
    let cmd = req
        .get("cmd")
        .and_then(|v| v.as_str())
        .map(|s| s.to_string())
        .unwrap_or_else(|| format!("save {path}"));
    let mut printed = String::new();
    let r = catch_unwind(AssertUnwindSafe(|| {
        let mut runner = CommandRunner::<()>::new()
            .print_with(|m: &Markup| printed.push_str(&plain(m)))
            .enable_save(SessionHistory::new());
        if let Some(entries) = req.get("entries").and_then(|v| v.as_array()) {
            for e in entries {
                let text = e[0].as_str().unwrap_or("");
                let ok = e[1].as_bool().unwrap_or(false);
                runner.push_to_history(text, if ok { Ok(()) } else { Err(()) });
            }
        }
        runner.try_run_command(&cmd, ctx, &mut ())
    }));
    match r {
        Err(_) => json!({"ok": false, "status": "panic", "panic": take_panic()}),
        Ok(Ok(cf)) => {
            json!({"ok": true, "is_command": cf != CommandControlFlow::NotACommand, "printed": printed})
        }
        Ok(Err(e)) => json!({"ok": false, "status": "err", "msg": format!("{e:?}"), "printed": printed}),
    }
}

fn serve() {
    install_panic_hook();
    Context::use_test_exchange_rates();
    let mut server = Server {
        sessions: HashMap::new(),
    };
    let stdin = std::io::stdin();
    let stdout = std::io::stdout();
    let mut out = stdout.lock();
    for line in stdin.lock().lines() {
        let line = match line {
            Ok(l) => l,
            Err(_) => break,
        };
        if line.trim().is_empty() {
            continue;
        }
        let resp = match serde_json::from_str::<J>(&line) {
            Ok(req) => {
                // a panic in the harness' own code must not look like a numbat verdict
                match catch_unwind(AssertUnwindSafe(|| server.handle(&req))) {
                    Ok(r) => r,
                    Err(_) => json!({"ok": false, "harness_error": "panic in server", "panic": take_panic()}),
                }
            }
            Err(e) => json!({"ok": false, "harness_error": format!("bad request: {e}")}),
        };
        let s = serde_json::to_string(&resp).unwrap();
        if out.write_all(s.as_bytes()).is_err() || out.write_all(b"\n").is_err() {
            break;
        }
        let _ = out.flush();
    }
}

fn runprog(args: &[String]) -> i32 {
    let Some(path) = args.first() else { return 2 };
    let Ok(code) = std::fs::read_to_string(path) else { return 2 };
    let mut ctx = Context::new(BuiltinModuleImporter::default());
    let prints: Arc<Mutex<Vec<Markup>>> = Arc::new(Mutex::new(vec![]));
    let prints_c = prints.clone();
    let mut settings = InterpreterSettings {
        print_fn: Box::new(move |m: &Markup| {
            prints_c.lock().unwrap().push(m.clone());
        }),
    };
    for m in &args[1..] {
        if let Err(e) = ctx.interpret_with_settings(&mut settings, &format!("use {m}"), CodeSource::Internal) {
            println!("{}", json!({"ok": false, "stage": "module", "msg": format!("{e}")}));
            return 2;
        }
    }
    let r = ctx.interpret_with_settings(&mut settings, &code, CodeSource::Text);
    let p: Vec<String> = prints.lock().unwrap().iter().map(plain).collect();
    let hist: Vec<(String, u64)> = verif::take_opcode_histogram()
        .iter()
        .map(|(b, n)| (verif::opcode_name(*b).unwrap_or("INVALID").to_string(), *n))
        .collect();
    match r {
        Ok((_, InterpreterResult::Value(v))) => {
            println!("{}", json!({"ok": true, "value": out::value_json(&v), "prints": p, "opcodes": hist}))
        }
        Ok((_, InterpreterResult::Continue)) => {
            println!("{}", json!({"ok": true, "value": J::Null, "prints": p, "opcodes": hist}))
        }
        Err(e) => println!("{}", json!({"ok": false, "stage": "program", "msg": format!("{e}"), "prints": p})),
    }
    0
}

fn main() {
    let argv: Vec<String> = std::env::args().collect();
    if argv.get(1).map(|s| s.as_str()) == Some("listcheck") {
        // stand-alone list explorer (this is what runs under Miri)
        std::process::exit(listcheck::main_standalone(&argv[2..]));
    }
    if argv.get(1).map(|s| s.as_str()) == Some("runprog") {
        // stand-alone: interpret the modules given after the file name, then the program in the file, and
        // print one JSON line with value / prints / error (this is what runs under Miri for C09)
        std::process::exit(runprog(&argv[2..]));
    }
    // Run everything on a thread with the stack size of the CLI's main thread (8 MiB),
    // so that stack-depth verdicts match what a user of the binary would see.
    let stack: usize = std::env::var("NBSERVE_STACK_MB")
        .ok()
        .and_then(|s| s.parse().ok())
        .unwrap_or(8);
    let handle = std::thread::Builder::new()
        .stack_size(stack * 1024 * 1024)
        .spawn(serve)
        .unwrap();
    let _ = handle.join();
}

pub fn variant_name_pub(s: &str) -> String {
    variant_name(s)
}

pub fn take_panic_pub() -> J {
    take_panic()
}
