"""C07 — incremental, batched and replayed sessions agree; copied sessions are independent."""
import json
import os
import shutil
import tempfile

from ..core import get_worker, rng_for, WorkerDied, WorkerTimeout, VERIF
from ..gen_session import SessionGen, observation, DIMS

LEVEL = "exploration"
RULE = ("seeded random histories of succeeding inputs (definitions, redefinition/shadowing of variables and functions, "
        "function values stored in variables, units with aliases, structs, lists, ans/_, prints, imports) interleaved "
        "with failing inputs: (a) submitted one at a time, (b) the succeeding inputs joined into one multi-line input, (d) the same inputs cut into 2-4 multi-statement inputs, "
        "(c) the file written by the real `save` command (fed with the ok/err status of every input) replayed in a fresh "
        "session — compared on concatenated print output, final result, names, signatures and raw values of all "
        "globals. Clone independence: a fork and its origin are driven with different suffixes (list cons/cons_end on "
        "shared lists, redefinitions, imports) and each is compared with a reference session that never was forked. "
        "distinct = history text; non-trivial = history has >= 3 succeeding inputs")
EXHAUSTIVE = {"quick": False, "thorough": False}
FLOOR = {"quick": 150, "thorough": 3000}
ASSUMPTIONS = ["the saved history is replayed as one file (multi-line inputs cannot be replayed line by line)"]
NSHARDS = 16

FAILING_SIMPLE = ["1 m + 1 s", "let vq_bad = 1 / 0", "vq_undefined_name", "(1 +", 'error("no")', "assert(false)", "let sin = 2",
                  "use vf::nope", "  1 m + 2 s  "]


def shards(tier, seed):
    n = 960 if tier == "quick" else 24000
    return [{"idx": i, "n": NSHARDS, "seed": seed, "count": n // NSHARDS} for i in range(NSHARDS)]


def gen_history(rng, k):
    gen = SessionGen(rng, tag=f"h{k}")
    hist = []
    f3 = False
    n = rng.randint(3, 12)
    fn_vars = {}
    for i in range(n):
        r = rng.random()
        if r < 0.12 and gen.fns:
            # function value stored in a variable, then called
            f = rng.choice(list(gen.fns))
            v = gen.fresh("vg")
            fn_vars[v] = f
            d = gen.fns[f][0] or "Length"
            hist.append(f"let {v} = {f}")
            hist.append(f"{v}(2 {DIMS[d][0]})".replace("(2 )", "(2)"))
            gen.have_result = True
        elif r < 0.18 and fn_vars and rng.random() < 0.5:
            # the F3 stratum: redefine a function that a stored function value names
            v = rng.choice(list(fn_vars))
            f = fn_vars[v]
            d = gen.fns[f][0] or "Length"
            if gen.fns[f][0] is None:
                hist.append(f"fn {f}(x) = x * 7 + x")
            else:
                hist.append(f"fn {f}(x: {d}) -> {d} = x * 7")
            hist.append(f"print({v}(1 {DIMS[d][0]}))".replace("(1 )", "(1)"))
            f3 = True
        elif r < 0.36 and r >= 0.26:
            # an expression statement directly followed by a reader of the last result: in a joined input `ans` must be
            # the value of the statement before it, not the last result of an earlier input
            nd = rng.choice(list(DIMS))
            hist.append(gen.quantity(nd, 1))
            hist.append(rng.choice(["print(ans)", "ans * 2", "print(_ + ans)", f"let {gen.fresh('va')} = ans", "[ans, _]"]))
            gen.have_result = True
        elif r < 0.26 and gen.vars:
            # shadowing: redefine a variable with another dimension, and use it
            v = rng.choice(list(gen.vars))
            nd = rng.choice(list(DIMS))
            hist.append(f"let {v} = {gen.quantity(nd, 0)}")
            gen.vars[v] = nd
            hist.append(f"print({v})")
        else:
            hist.append(gen.statement())
    return gen, hist, f3


def snapshot(w, sid, gen):
    names = w.call({"op": "names", "sid": sid})
    glob = sorted(set(list(gen.vars) + list(gen.list_vars) + list(gen.struct_vars)))
    raw = w.call({"op": "raw_global", "sid": sid, "names": glob})["values"] if glob else {}
    probes = {}
    for p in gen.probes():
        probes[p] = observation(w.eval(sid, p, stmts=False))
    return {"variables": names["variables"], "functions": names["functions"], "units": names["units"],
            "dimensions": names["dimensions"], "imported": sorted(names["imported"]), "raw": raw, "probes": probes}


def diff_snap(a, b):
    out = []
    for k in a:
        if a[k] != b[k]:
            if isinstance(a[k], dict):
                for kk in sorted(set(a[k]) | set(b[k])):
                    if a[k].get(kk) != b[k].get(kk):
                        out.append(f"{k}[{kk}]: {json.dumps(a[k].get(kk))[:160]} vs {json.dumps(b[k].get(kk))[:160]}")
            else:
                out.append(f"{k}: {json.dumps(a[k])[:160]} vs {json.dumps(b[k])[:160]}")
    return out


def run_modes(sh, w, rng, k, tmpdir):
    gen, hist, f3 = gen_history(rng, k)
    case = {"history": hist}
    # (a) incremental, with failing inputs interleaved
    a = w.fork("p")
    sids = [a]
    try:
        entries, ok_inputs, prints_a, last_a = [], [], [], None
        for h in hist:
            if rng.random() < 0.25:
                bad = rng.choice(FAILING_SIMPLE)
                rb = w.eval(a, bad, stmts=False)
                if rb.get("status") == "panic":
                    sh.count("panics_left_to_C08")
                    return
                entries.append((bad, bool(rb.get("ok"))))
            r = w.eval(a, h, stmts=False)
            if r.get("status") == "panic":
                sh.count("panics_left_to_C08")
                return
            entries.append((h if rng.random() < 0.7 else f"  {h}  ", bool(r.get("ok"))))
            if r.get("ok"):
                ok_inputs.append(h)
                prints_a += r.get("prints") or []
                if r.get("value") is not None:
                    last_a = r       # a batch reports the value of its last *expression* statement
            else:
                sh.count("history_statement_failed")
        if len(ok_inputs) < 2:
            return
        case["ok_inputs"] = ok_inputs
        snap_a = snapshot(w, a, gen)
        sh.judged()
        # (b) batched
        b = w.fork("p")
        sids.append(b)
        rb = w.eval(b, "\n".join(ok_inputs), stmts=False)
        problems = []
        if rb.get("status") == "panic":
            sh.count("panics_left_to_C08")
            return
        if not rb.get("ok"):
            problems.append(f"batched: the joined input fails: {rb.get('stage')}/{rb.get('kind')}: {rb.get('msg')}")
        else:
            if (rb.get("prints") or []) != prints_a:
                problems.append(f"batched: print output {rb.get('prints')} differs from incremental {prints_a}")
            if observation(rb).get("value") != (observation(last_a).get("value") if last_a else None):
                problems.append(f"batched: final result {rb.get('val_text')!r} differs from the last incremental result "
                                f"{last_a.get('val_text') if last_a else None!r}")
            d = diff_snap(snap_a, snapshot(w, b, gen))
            if d:
                problems.append("batched: " + "; ".join(d[:3]))
        # (d) chunked: the same inputs in 2-4 multi-statement inputs (what a pasted block or `numbat file -e ...` does)
        if len(ok_inputs) >= 3:
            cuts = sorted(rng.sample(range(1, len(ok_inputs)), min(len(ok_inputs) - 1, rng.randint(1, 3))))
            chunks = [ok_inputs[i:j] for i, j in zip([0] + cuts, cuts + [len(ok_inputs)])]
            case["chunks"] = chunks
            dsid = w.fork("p")
            sids.append(dsid)
            prints_d, last_d, failed = [], None, False
            for ch in chunks:
                rd = w.eval(dsid, (";" if rng.random() < 0.15 and all("\n" not in x for x in ch) else "\n").join(ch), stmts=False)
                if rd.get("status") == "panic":
                    sh.count("panics_left_to_C08")
                    return
                if not rd.get("ok"):
                    problems.append(f"chunked: the input {ch!r} fails after {chunks.index(ch)} earlier chunks: "
                                    f"{rd.get('stage')}/{rd.get('kind')}: {rd.get('msg')}")
                    failed = True
                    break
                prints_d += rd.get("prints") or []
                if rd.get("value") is not None:
                    last_d = rd
            if not failed:
                if prints_d != prints_a:
                    problems.append(f"chunked {[len(c) for c in chunks]}: print output {prints_d} differs from incremental {prints_a}")
                if (observation(last_d).get("value") if last_d else None) != (observation(last_a).get("value") if last_a else None):
                    problems.append(f"chunked: final result {last_d.get('val_text') if last_d else None!r} differs from the last "
                                    f"incremental result {last_a.get('val_text') if last_a else None!r}")
                d = diff_snap(snap_a, snapshot(w, dsid, gen))
                if d:
                    problems.append("chunked: " + "; ".join(d[:3]))
            sh.count("chunked_modes_compared")
        # (c) saved by the real `save` command, replayed
        path = os.path.join(tmpdir, f"hist_{k}.nbt")
        rs = w.call({"op": "history_save", "sid": a, "path": path, "entries": [[t, ok] for t, ok in entries]})
        if not rs.get("ok"):
            problems.append(f"save command failed: {rs}")
        else:
            saved = open(path, encoding="utf-8").read()
            want = "".join(t.strip() + "\n" for t, ok in entries if ok)
            if saved != want:
                problems.append(f"save wrote {saved!r}, expected exactly the trimmed succeeding inputs {want!r}")
            c = w.fork("p")
            sids.append(c)
            rc = w.eval(c, saved, stmts=False)
            if rc.get("status") == "panic":
                sh.count("panics_left_to_C08")
                return
            if not rc.get("ok"):
                problems.append(f"replayed: the saved history fails: {rc.get('stage')}/{rc.get('kind')}: {rc.get('msg')}")
            else:
                if (rc.get("prints") or []) != prints_a:
                    problems.append(f"replayed: print output {rc.get('prints')} differs from incremental {prints_a}")
                d = diff_snap(snap_a, snapshot(w, c, gen))
                if d:
                    problems.append("replayed: " + "; ".join(d[:3]))
        if problems:
            sh.violation(case, " | ".join(problems[:3]))
        if len(ok_inputs) >= 3:
            sh.nontrivial(tuple(hist))
        sh.count("modes_compared")
        if len(sh.samples) < 2:
            sh.sample({"history": ok_inputs[:6], "prints": prints_a[:3]})
    finally:
        for s in sids:
            try:
                w.drop(s)
            except Exception:
                pass


def mutating_suffix(rng, gen, tag):
    g = SessionGen(rng, tag=tag)
    g.vars, g.fns, g.units = dict(gen.vars), dict(gen.fns), dict(gen.units)
    g.list_vars, g.struct_vars, g.structs = dict(gen.list_vars), dict(gen.struct_vars), dict(gen.structs)
    g.imported = list(gen.imported)
    out = []
    for _ in range(rng.randint(2, 6)):
        r = rng.random()
        if r < 0.35 and g.list_vars:
            v = rng.choice(list(g.list_vars))
            d = g.list_vars[v]
            op = rng.choice(["cons", "cons_end"])
            out.append(f"let {v} = {op}({g.quantity(d, 0)}, {v})")     # rebinding a shared list
        elif r < 0.5 and g.fns:
            f = rng.choice(list(g.fns))
            d = g.fns[f][0]
            out.append(f"fn {f}(x) = x * {rng.choice([11, 13])} + x" if d is None else f"fn {f}(x: {d}) -> {d} = x * {rng.choice([11, 13])}")
        elif r < 0.65 and g.vars:
            v = rng.choice(list(g.vars))
            out.append(f"let {v} = {g.quantity(g.vars[v], 0)} * {rng.choice([3, 5])}")
        else:
            out.append(g.statement())
    return g, out


def run_clone(sh, w, rng, k):
    gen, hist, _ = gen_history(rng, k)
    case = {"history": hist}
    o = w.fork("p")
    sids = [o]
    try:
        for h in hist:
            r = w.eval(o, h, stmts=False)
            if r.get("status") == "panic":
                sh.count("panics_left_to_C08")
                return
        ref = w.fork("p")          # reference: same history, never forked
        sids.append(ref)
        for h in hist:
            w.eval(ref, h, stmts=False)
        f = w.fork(o)              # the copy
        sids.append(f)
        ga, sa = mutating_suffix(rng, gen, f"a{k}")
        gb, sb = mutating_suffix(rng, gen, f"b{k}")
        case.update({"origin_suffix": sa, "copy_suffix": sb})
        # interleave: origin gets sa, copy gets sb
        i = j = 0
        while i < len(sa) or j < len(sb):
            if j >= len(sb) or (i < len(sa) and rng.random() < 0.5):
                r = w.eval(o, sa[i], stmts=False)
                i += 1
            else:
                r = w.eval(f, sb[j], stmts=False)
                j += 1
            if r.get("status") == "panic":
                sh.count("panics_left_to_C08")
                return
        for s in sa:
            w.eval(ref, s, stmts=False)
        sh.judged()
        d = diff_snap(snapshot(w, ref, ga), snapshot(w, o, ga))
        if d:
            sh.violation(case, "the origin of a copied session differs from a session that was never copied: " + "; ".join(d[:3]))
        # and the copy vs its own reference
        ref2 = w.fork("p")
        sids.append(ref2)
        for h in hist + sb:
            w.eval(ref2, h, stmts=False)
        d2 = diff_snap(snapshot(w, ref2, gb), snapshot(w, f, gb))
        if d2:
            sh.violation(case, "a copied session differs from a fresh session with the same inputs: " + "; ".join(d2[:3]))
        sh.nontrivial("clone", tuple(hist), tuple(sa), tuple(sb))
        sh.count("clone_pairs_compared")
    finally:
        for s in sids:
            try:
                w.drop(s)
            except Exception:
                pass


def run_shard(sh, spec):
    w = get_worker()
    rng = rng_for(spec["seed"], "C07", spec["idx"])
    tmpdir = tempfile.mkdtemp(prefix="vf_c07_", dir=os.path.join(VERIF, "target"))
    try:
        for k in range(spec["count"]):
            try:
                if rng.random() < 0.65:
                    run_modes(sh, w, rng, f"{spec['idx']}x{k}", tmpdir)
                else:
                    run_clone(sh, w, rng, f"{spec['idx']}x{k}")
            except (WorkerDied, WorkerTimeout):
                sh.count("worker_died_left_to_C08")
                w.restart()
    finally:
        shutil.rmtree(tmpdir, ignore_errors=True)


def replay(sh, case):
    w = get_worker()
    a, b = w.fork("p"), w.fork("p")
    prints = []
    for h in case.get("ok_inputs") or case["history"]:
        r = w.eval(a, h, stmts=False)
        prints += r.get("prints") or []
    rb = w.eval(b, "\n".join(case.get("ok_inputs") or case["history"]), stmts=False)
    print("incremental prints:", prints)
    print("batched prints:", rb.get("prints"), rb.get("msg"))
    sh.judged()
    if rb.get("prints") != prints:
        sh.violation(case, "batched print output differs from incremental")


LEVEL_TEXT = ("Seeded metamorphic exploration over session histories: the same succeeding inputs are executed incrementally, as one "
              "batch and from the file produced by the real save command, and complete session snapshots (prints, results, "
              "names, signatures, raw global values via the hook, probe evaluations) are compared; copied sessions are driven "
              "apart and each compared with a never-copied reference.")
LEVEL_NOTE = ("Trusted: snapshot coverage (function bodies are observed through probe calls); the history generator keeps a "
              "stratum that stores function values and redefines the named function afterwards (the pattern of fixed finding F3).")
TECHNIQUE = "runtime monitoring: metamorphic session-history monitor (incremental vs batched vs saved-and-replayed; fork independence)"
