"""C14 — displayed numbers read back as the value they show."""
import math
import re
import struct
from decimal import Decimal, getcontext, ROUND_FLOOR

from ..core import get_worker, rng_for, float_to_bits, bits_to_float, WorkerDied, WorkerTimeout

getcontext().prec = 1200   # exact decimal expansion of any double (subnormals need ~1075 digits)

LEVEL = "exploration"
RULE = ("f64 values from strata (integers around 10^k and 2^53, 10^k +- 1 ulp and +- 0.5, exact decimal ties, values "
        "at the scientific-notation switch points, subnormals, random bit patterns, negatives, +-0, +-inf, NaN) x "
        "format settings (separator in {_ , ' space none}, grouping threshold 1..10, significant digits 1..17), "
        "formatted by Value::pretty_print_with. The displayed text, separator removed, must be accepted by numbat's "
        "parser as one numeric literal (or inf/NaN keyword) and its exact decimal value must be a correct rounding "
        "of the exact binary value to the configured digits (integers < 2^53: all digits); grouping is checked "
        "structurally. distinct = (bit pattern, settings); non-trivial = value is not an integer below 1000")
EXHAUSTIVE = {"quick": False, "thorough": False}
FLOOR = {"quick": 5000, "thorough": 100000}
ASSUMPTIONS = ["a displayed decimal that parses back to exactly the same double is accepted (faithful representation)",
               "a displayed decimal d is accepted as 'the value rounded to n digits' when |d - x| <= 0.5*10^(e-n+1) for x the exact "
               "binary value or its shortest round-trip decimal (the formatter rounds the shortest representation)",
               "grouping rule from the FormatOptions documentation: separators iff the integer has at least `threshold` digits"]
NSHARDS = 16
SEPS = ["_", ",", "'", " ", ""]


def shards(tier, seed):
    n = 160000 if tier == "quick" else 2000000
    return [{"idx": i, "n": NSHARDS, "seed": seed, "count": n // NSHARDS} for i in range(NSHARDS)]


def next_up(x):
    if math.isnan(x) or x == math.inf:
        return x
    if x == 0:
        return 5e-324
    b = struct.unpack(">q", struct.pack(">d", x))[0]
    b += 1 if x > 0 else -1
    return struct.unpack(">d", struct.pack(">q", b))[0]


def next_down(x):
    return -next_up(-x)


def gen_value(rng):
    r = rng.random()
    if r < 0.12:
        k = rng.randint(-12, 22)
        x = float(10 ** k) if k >= 0 else float(f"1e{k}")
        c = rng.randrange(6)
        return [x, next_up(x), next_down(x), x + 0.5, x - 0.5, x - 1][c]
    if r < 0.20:
        base = 2.0 ** 53
        return base + rng.randint(-40, 40) * rng.choice([1, 2, 0.5])
    if r < 0.28:
        # exact decimal ties at n digits, e.g. 0.1234565, 1234.565, 2.5, 0.125
        n = rng.randint(1, 12)
        digits = rng.randint(10 ** (n - 1), 10 ** n - 1) if n > 1 else rng.randint(1, 9)
        e = rng.randint(-8, 8)
        return float(f"{digits}5e{e - n}")
    if r < 0.36:
        # scientific-notation switch points
        k = rng.choice([-7, -6, -5, 5, 6, 7, 14, 15, 16])
        m = rng.choice([1.0, 0.999999, 0.9999995, 1.0000005, 9.999995, 9.9999995, 1.5, 9.99])
        return m * 10.0 ** k
    if r < 0.42:
        return rng.choice([5e-324, 2.2250738585072014e-308, 1.7976931348623157e308, 4.9e-320,
                           rng.uniform(1e-320, 1e-310)])
    if r < 0.47:
        return rng.choice([0.0, -0.0, math.inf, -math.inf, math.nan])
    if r < 0.62:
        return float(rng.randint(-10 ** rng.randint(1, 16), 10 ** rng.randint(1, 16)))
    if r < 0.80:
        return round(rng.uniform(-1, 1) * 10 ** rng.randint(-3, 9), rng.randint(0, 10))
    b = rng.getrandbits(64)
    return struct.unpack(">d", struct.pack(">Q", b))[0]


def decimal_exponent(x: Decimal) -> int:
    """floor(log10 |x|) for x != 0"""
    return x.copy_abs().adjusted()


NUM_RE = re.compile(r"^-?(\d+(\.\d+)?)(e[+-]?\d+)?$")


def judge(x, text, sep, threshold, digits):
    """returns None or a problem description"""
    if isinstance(text, dict):
        return f"formatter panicked: {text}"
    if math.isnan(x):
        return None if text == "NaN" else f"NaN displayed as {text!r}"
    if math.isinf(x):
        want = "inf" if x > 0 else "-inf"
        return None if text == want else f"{want} displayed as {text!r}"
    t = text.replace(sep, "") if sep else text
    if not NUM_RE.match(t):
        return f"{text!r} is not a numeric literal after removing the separator {sep!r}"
    d = Decimal(t)
    xd = Decimal(x)
    if x == int(x) and abs(x) < 2.0 ** 53:
        want = str(int(x))
        if t != want and not (x == 0 and t in ("0", "-0")):
            return f"integer {want} displayed as {text!r}"
        ndig = len(want.lstrip("-"))
        if sep:
            body = text.lstrip("-")
            grouped = sep in body
            if ndig >= threshold and ndig >= 4:
                parts = body.split(sep)
                ok = 1 <= len(parts[0]) <= 3 and all(len(p) == 3 for p in parts[1:]) and len(parts) > 1
                if not ok:
                    return f"{want} with threshold {threshold} should be grouped in threes, displayed {text!r}"
            elif grouped:
                return f"{want} has fewer digits than the threshold {threshold} but is grouped: {text!r}"
        return None
    if xd == 0:
        return None if d == 0 else f"zero displayed as {text!r}"
    e = decimal_exponent(xd)
    bound = Decimal(5) * Decimal(10) ** (e - digits) * (Decimal(1) + Decimal("1e-9"))
    if float(t) == x:
        # the text identifies exactly this double (shortest round-trip representation with at most
        # n digits): reading it back gives the computed value itself
        pass
    elif abs(d - Decimal(repr(x))) <= Decimal(5) * Decimal(10) ** (e - digits):
        # correct rounding (either direction at an exact tie) of the shortest round-trip
        # representation, which is the formatter's documented strategy (pretty_dtoa)
        pass
    elif abs(d - xd) > bound:
        return (f"{x!r} (exact {str(xd)[:40]}) displayed as {text!r} with {digits} significant digits: off by "
                f"{float(abs(d - xd)):.3g}, allowed {float(bound):.3g}")
    # no more than the configured number of significant digits
    sig = len(d.as_tuple().digits) if d != 0 else 1
    mant = t.split("e")[0].lstrip("-").replace(".", "").lstrip("0").rstrip("0")
    if len(mant) > max(digits, 1) and not (x == int(x)):
        return f"{text!r} shows {len(mant)} significant digits, configured {digits}"
    return None


def run_shard(sh, spec):
    w = get_worker()
    rng = rng_for(spec["seed"], "C14", spec["idx"])
    done = 0
    while done < spec["count"]:
        sep = rng.choice(SEPS)
        threshold = rng.randint(1, 10)
        digits = rng.randint(1, 17)
        if rng.random() < 0.3:
            sep, threshold, digits = "_", 6, 6
        xs = [gen_value(rng) for _ in range(400)]
        fmt = {"sep": sep, "threshold": threshold, "digits": digits}
        try:
            res = w.call({"op": "format", "bits": [float_to_bits(x) for x in xs], "fmt": fmt})["res"]
        except (WorkerDied, WorkerTimeout) as e:
            sh.violation({"fmt": fmt, "bits": [float_to_bits(x) for x in xs]}, f"formatter crashed/hung: {e}")
            w.restart()
            done += len(xs)
            continue
        # acceptance by numbat's own parser
        texts = [(r.replace(sep, "") if sep else r) if isinstance(r, str) else "0" for r in res]
        parsed = w.call({"op": "parse", "codes": texts})["res"]
        for x, text, p in zip(xs, res, parsed):
            sh.judged()
            case = {"bits": float_to_bits(x), "repr": repr(x), "fmt": fmt, "text": text}
            why = judge(x, text, sep, threshold, digits)
            if why is None and isinstance(text, str):
                ok = p.get("ok") and len(p["stmts"]) == 1 and p["stmts"][0][0] == "expr"
                if ok:
                    e = p["stmts"][0][1]
                    if e[0] == "neg":
                        e = e[1]
                    ok = e[0] == "num" or (e[0] == "id" and e[1] in ("inf", "NaN"))
                if not ok:
                    why = f"displayed {text!r} is not parsed by numbat as a single numeric literal: {p}"
            if why:
                sh.violation(case, why)
            if not (x == int(x) and abs(x) < 1000) if not (math.isnan(x) or math.isinf(x)) else True:
                sh.nontrivial(case["bits"], sep, threshold, digits)
            if len(sh.samples) < 4 and rng.random() < 0.01:
                sh.sample({"value": repr(x), "fmt": fmt, "displayed": text})
        done += len(xs)
    sh.count("settings_batches", done // 400)


def replay(sh, case):
    w = get_worker()
    res = w.call({"op": "format", "bits": [case["bits"]], "fmt": case["fmt"]})["res"][0]
    x = bits_to_float(case["bits"])
    why = judge(x, res, case["fmt"]["sep"], case["fmt"]["threshold"], case["fmt"]["digits"])
    sh.judged()
    print("displayed:", res)
    if why:
        sh.violation(case, why)


LEVEL_TEXT = ("Seeded stratified exploration of f64 x format settings: the real formatter's output is judged by an "
              "arbitrary-precision decimal oracle (exact value of the double, correct n-digit rounding bound, all digits for "
              "integers < 2^53, inf/NaN keywords, grouping structure) and by numbat's own parser for literal validity.")
LEVEL_NOTE = ("Trusted: Python's decimal module for exact binary-to-decimal conversion; the 1e-9 slack on the rounding bound "
              "(admits rounding of the shortest repr, rejects truncation/lost digits/lost exponent).")
TECHNIQUE = "runtime monitoring: formatter output judged by arbitrary-precision decimal reference oracle + parser read-back"
