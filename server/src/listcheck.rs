//! C18: exploration of `numbat::list::NumbatList` against a plain `Vec` model.
//!
//! The explorer drives the *real* list type through its public operations on several
//! simultaneously live handles (which may share one allocation through different views)
//! and, after every single operation, compares **every** live handle with its model:
//! length, emptiness, iteration order, the element `head` would return, pairwise equality.
//!
//! Three drivers share the same step/compare code:
//!  * `listcheck`  – depth-first enumeration of all operation sequences up to a bound, with
//!                   optional pruning on a canonical form of (contents, sharing structure);
//!  * `listfuzz`   – long seeded random sequences on more handles;
//!  * `listrun`    – replay of one explicit sequence with a dump of every intermediate state.
//!
//! There is no oracle logic about *numbat programs* here — only the `Vec` model of a list.
use std::collections::{HashMap, VecDeque};

use numbat::list::NumbatList;
use numbat::value::Value;
use numbat::verif::Quantity;
use serde_json::{json, Map, Value as J};

type L = NumbatList<Value>;

fn mk(id: u32) -> Value {
    Value::Quantity(Quantity::from_scalar(id as f64))
}

fn id_of(v: &Value) -> i64 {
    match v {
        Value::Quantity(q) => {
            let f = q.unsafe_value().to_f64();
            if f.fract() == 0.0 && f.abs() < 1e15 {
                f as i64
            } else {
                -1
            }
        }
        _ => -2,
    }
}

#[derive(Clone, Copy, Debug, PartialEq, Eq, Hash)]
pub enum Op {
    New(u8),
    WithCap(u8),
    /// `From<VecDeque<Value>>` with two fresh elements
    Lit(u8),
    /// literal the way the VM builds it: `with_capacity(n)` then `push_front` n times
    VmLit(u8),
    CloneTo(u8, u8),
    PushFront(u8),
    PushBack(u8),
    Tail(u8),
    /// consuming `head(self)`: the handle is gone afterwards
    Head(u8),
    Drop(u8),
}

impl Op {
    fn to_json(self) -> J {
        match self {
            Op::New(a) => json!(["new", a]),
            Op::WithCap(a) => json!(["with_capacity", a]),
            Op::Lit(a) => json!(["lit", a]),
            Op::VmLit(a) => json!(["vmlit", a]),
            Op::CloneTo(a, b) => json!(["clone_to", a, b]),
            Op::PushFront(a) => json!(["push_front", a]),
            Op::PushBack(a) => json!(["push_back", a]),
            Op::Tail(a) => json!(["tail", a]),
            Op::Head(a) => json!(["head", a]),
            Op::Drop(a) => json!(["drop", a]),
        }
    }

    fn from_json(j: &J) -> Option<Op> {
        let a = j.as_array()?;
        let name = a.first()?.as_str()?;
        let x = a.get(1).and_then(|v| v.as_u64()).unwrap_or(0) as u8;
        let y = a.get(2).and_then(|v| v.as_u64()).unwrap_or(0) as u8;
        Some(match name {
            "new" => Op::New(x),
            "with_capacity" => Op::WithCap(x),
            "lit" => Op::Lit(x),
            "vmlit" => Op::VmLit(x),
            "clone_to" => Op::CloneTo(x, y),
            "push_front" => Op::PushFront(x),
            "push_back" => Op::PushBack(x),
            "tail" => Op::Tail(x),
            "head" => Op::Head(x),
            "drop" => Op::Drop(x),
            _ => return None,
        })
    }

    fn name(self) -> &'static str {
        match self {
            Op::New(_) => "new",
            Op::WithCap(_) => "with_capacity",
            Op::Lit(_) => "lit",
            Op::VmLit(_) => "vmlit",
            Op::CloneTo(..) => "clone_to",
            Op::PushFront(_) => "push_front",
            Op::PushBack(_) => "push_back",
            Op::Tail(_) => "tail",
            Op::Head(_) => "head",
            Op::Drop(_) => "drop",
        }
    }
}

pub struct State {
    h: Vec<Option<L>>,
    m: Vec<Option<Vec<u32>>>,
    next: u32,
}

#[derive(Default)]
pub struct Stats {
    pub steps: u64,
    pub nodes: u64,
    pub pruned: u64,
    pub leaves: u64,
    pub comparisons: u64,
    pub max_len: usize,
    pub max_sharers: usize,
    pub ops: HashMap<&'static str, u64>,
    pub paths: HashMap<&'static str, u64>,
}

impl Stats {
    fn path(&mut self, p: &'static str) {
        *self.paths.entry(p).or_insert(0) += 1;
    }

    pub fn to_json(&self) -> J {
        let mut ops = Map::new();
        for (k, v) in &self.ops {
            ops.insert(k.to_string(), json!(v));
        }
        let mut paths = Map::new();
        for (k, v) in &self.paths {
            paths.insert(k.to_string(), json!(v));
        }
        json!({"steps": self.steps, "nodes": self.nodes, "pruned": self.pruned, "leaves": self.leaves,
               "comparisons": self.comparisons, "max_len": self.max_len, "max_sharers": self.max_sharers,
               "ops": ops, "paths": paths})
    }
}

impl State {
    pub fn new(handles: usize) -> State {
        State {
            h: (0..handles).map(|_| None).collect(),
            m: (0..handles).map(|_| None).collect(),
            next: 1,
        }
    }

    fn fresh(&mut self) -> u32 {
        let id = self.next;
        self.next += 1;
        id
    }

    fn live(&self, i: u8) -> bool {
        self.h.get(i as usize).map(|x| x.is_some()).unwrap_or(false)
    }

    /// which branch of list.rs the operation is about to take (from the hooked sharing state)
    fn classify(&self, op: Op, st: &mut Stats) {
        let info = |i: u8| {
            let l = self.h[i as usize].as_ref().unwrap();
            (l.verif_strong_count(), l.verif_view(), l.verif_alloc_len())
        };
        match op {
            Op::PushFront(i) => {
                let (sc, view, _) = info(i);
                st.path(match (sc > 1, view) {
                    (true, None) => "push_front:shared,whole->copy",
                    (true, Some(_)) => "push_front:shared,view->copy",
                    (false, None) => "push_front:unique,whole",
                    (false, Some((0, _))) => "push_front:unique,view,start=0",
                    (false, Some(_)) => "push_front:unique,view,start>0 (overwrite in place)",
                });
            }
            Op::PushBack(i) => {
                let (sc, view, alen) = info(i);
                st.path(match (sc > 1, view) {
                    (true, None) => "push_back:shared,whole->copy",
                    (true, Some(_)) => "push_back:shared,view->copy",
                    (false, None) => "push_back:unique,whole",
                    (false, Some((_, e))) if e == alen => "push_back:unique,view,end=len",
                    (false, Some(_)) => "push_back:unique,view,end<len (overwrite in place)",
                });
            }
            Op::Tail(i) => {
                let (sc, view, _) = info(i);
                let empty = self.h[i as usize].as_ref().unwrap().is_empty();
                st.path(match (empty, view.is_some(), sc > 1) {
                    (true, _, _) => "tail:empty->error",
                    (false, true, true) => "tail:view,shared",
                    (false, true, false) => "tail:view,unique",
                    (false, false, true) => "tail:whole,shared",
                    (false, false, false) => "tail:whole,unique",
                });
            }
            Op::Head(i) => {
                let (sc, view, _) = info(i);
                let empty = self.h[i as usize].as_ref().unwrap().is_empty();
                st.path(match (empty, sc > 1, view.is_some()) {
                    (true, _, _) => "head:empty",
                    (false, true, true) => "head:shared,view (clone element)",
                    (false, true, false) => "head:shared,whole (clone element)",
                    (false, false, true) => "head:unique,view (swap_remove_front)",
                    (false, false, false) => "head:unique,whole (swap_remove_front)",
                });
            }
            _ => {}
        }
    }

    /// apply `op` to the real lists and to the model; Err = the operation itself misbehaved
    pub fn apply(&mut self, op: Op, st: &mut Stats) -> Result<(), String> {
        st.steps += 1;
        *st.ops.entry(op.name()).or_insert(0) += 1;
        match op {
            Op::New(s) => {
                self.h[s as usize] = Some(L::new());
                self.m[s as usize] = Some(vec![]);
            }
            Op::WithCap(s) => {
                self.h[s as usize] = Some(L::with_capacity(3));
                self.m[s as usize] = Some(vec![]);
            }
            Op::Lit(s) => {
                let (a, b) = (self.fresh(), self.fresh());
                let dq: VecDeque<Value> = vec![mk(a), mk(b)].into();
                let v: Value = dq.into();
                self.h[s as usize] = Some(v.unsafe_as_list());
                self.m[s as usize] = Some(vec![a, b]);
            }
            Op::VmLit(s) => {
                // `[a, b, c]` as compiled: elements pushed in order, popped in reverse, push_front
                let ids = [self.fresh(), self.fresh(), self.fresh()];
                let mut l = L::with_capacity(3);
                for id in ids.iter().rev() {
                    l.push_front(mk(*id));
                }
                self.h[s as usize] = Some(l);
                self.m[s as usize] = Some(ids.to_vec());
            }
            Op::CloneTo(d, s) => {
                let c = self.h[s as usize].as_ref().unwrap().clone();
                self.h[d as usize] = Some(c);
                self.m[d as usize] = self.m[s as usize].clone();
            }
            Op::PushFront(i) => {
                self.classify(op, st);
                let id = self.fresh();
                self.h[i as usize].as_mut().unwrap().push_front(mk(id));
                self.m[i as usize].as_mut().unwrap().insert(0, id);
            }
            Op::PushBack(i) => {
                self.classify(op, st);
                let id = self.fresh();
                self.h[i as usize].as_mut().unwrap().push_back(mk(id));
                self.m[i as usize].as_mut().unwrap().push(id);
            }
            Op::Tail(i) => {
                self.classify(op, st);
                let r = self.h[i as usize].as_mut().unwrap().tail();
                let m = self.m[i as usize].as_mut().unwrap();
                if m.is_empty() {
                    if r.is_ok() {
                        return Err("tail of an empty list did not report an error".into());
                    }
                } else {
                    if r.is_err() {
                        return Err("tail of a non-empty list reported an error".into());
                    }
                    m.remove(0);
                }
            }
            Op::Head(i) => {
                self.classify(op, st);
                let l = self.h[i as usize].take().unwrap();
                let m = self.m[i as usize].take().unwrap();
                let got = l.head();
                match (got, m.first()) {
                    (None, None) => {}
                    (Some(v), Some(e)) if id_of(&v) == *e as i64 => {}
                    (g, e) => {
                        return Err(format!(
                            "head returned {:?}, the model's first element is {:?}",
                            g.as_ref().map(id_of),
                            e
                        ));
                    }
                }
            }
            Op::Drop(i) => {
                self.h[i as usize] = None;
                self.m[i as usize] = None;
            }
        }
        Ok(())
    }

    /// compare every live handle with its model (and every pair of handles)
    pub fn compare_all(&self, st: &mut Stats) -> Result<(), String> {
        for (i, (h, m)) in self.h.iter().zip(self.m.iter()).enumerate() {
            let (Some(h), Some(m)) = (h, m) else {
                if h.is_some() != m.is_some() {
                    return Err(format!("harness: slot {i} liveness differs"));
                }
                continue;
            };
            st.comparisons += 1;
            st.max_len = st.max_len.max(m.len());
            st.max_sharers = st.max_sharers.max(h.verif_strong_count());
            if h.len() != m.len() {
                return Err(format!("handle {i}: len() = {}, model has {} elements {:?}", h.len(), m.len(), m));
            }
            if h.is_empty() != m.is_empty() {
                return Err(format!("handle {i}: is_empty() = {}, model {:?}", h.is_empty(), m));
            }
            let got: Vec<i64> = h.iter().map(id_of).collect();
            let want: Vec<i64> = m.iter().map(|x| *x as i64).collect();
            if got != want {
                return Err(format!("handle {i}: iterates as {got:?}, model says {want:?}"));
            }
            // copying: a copy equals the original and holds the same elements
            let c = h.clone();
            if c != *h {
                return Err(format!("handle {i}: a clone does not compare equal to its origin"));
            }
            let first = c.head();
            match (first.as_ref().map(id_of), want.first()) {
                (None, None) => {}
                (Some(a), Some(b)) if a == *b => {}
                (a, b) => return Err(format!("handle {i}: head() of a copy gives {a:?}, model {b:?}")),
            }
            // the temporary copy is gone: the origin must be untouched
            let again: Vec<i64> = h.iter().map(id_of).collect();
            if again != want {
                return Err(format!("handle {i}: contents changed by head() on a copy: {again:?} vs {want:?}"));
            }
        }
        for i in 0..self.h.len() {
            for j in 0..self.h.len() {
                if let (Some(a), Some(b)) = (&self.h[i], &self.h[j]) {
                    st.comparisons += 1;
                    let want = self.m[i] == self.m[j];
                    if (a == b) != want {
                        return Err(format!(
                            "handles {i} and {j}: == gives {}, models {:?} vs {:?}",
                            a == b,
                            self.m[i],
                            self.m[j]
                        ));
                    }
                    if i != j {
                        let same_alloc = a.verif_alloc_id() == b.verif_alloc_id();
                        st.path(match (same_alloc, a.verif_view() == b.verif_view()) {
                            (true, true) => "eq:same allocation, same view",
                            (true, false) => "eq:same allocation, different views",
                            (false, _) => "eq:different allocations",
                        });
                    }
                }
            }
        }
        Ok(())
    }

    /// canonical form of (contents, sharing structure); element ids and allocation addresses are
    /// renamed in order of first appearance
    pub fn canonical(&self) -> Vec<u32> {
        let mut key = Vec::with_capacity(32);
        let mut allocs: Vec<usize> = Vec::new();
        let mut ids: HashMap<u32, u32> = HashMap::new();
        for (h, m) in self.h.iter().zip(self.m.iter()) {
            match (h, m) {
                (Some(h), Some(m)) => {
                    let a = h.verif_alloc_id();
                    let ai = match allocs.iter().position(|x| *x == a) {
                        Some(p) => p,
                        None => {
                            allocs.push(a);
                            allocs.len() - 1
                        }
                    };
                    key.push(1 + ai as u32);
                    match h.verif_view() {
                        None => key.extend([0, 0, 0]),
                        Some((s, e)) => key.extend([1, s as u32, e as u32]),
                    }
                    key.push(h.verif_alloc_len() as u32);
                    key.push(h.verif_strong_count() as u32);
                    key.push(m.len() as u32);
                    for e in m {
                        let n = ids.len() as u32;
                        key.push(*ids.entry(*e).or_insert(n));
                    }
                }
                _ => key.push(0),
            }
        }
        key
    }

    pub fn enabled(&self) -> Vec<Op> {
        let n = self.h.len() as u8;
        let mut ops = Vec::with_capacity(20);
        if let Some(e) = (0..n).find(|i| !self.live(*i)) {
            ops.push(Op::New(e));
            ops.push(Op::WithCap(e));
            ops.push(Op::Lit(e));
            ops.push(Op::VmLit(e));
            for j in 0..n {
                if self.live(j) {
                    ops.push(Op::CloneTo(e, j));
                }
            }
        }
        for i in 0..n {
            if self.live(i) {
                ops.extend([Op::PushFront(i), Op::PushBack(i), Op::Tail(i), Op::Head(i), Op::Drop(i)]);
            }
        }
        ops
    }

    pub fn dump(&self) -> J {
        let mut out = Vec::new();
        for (h, m) in self.h.iter().zip(self.m.iter()) {
            match (h, m) {
                (Some(h), Some(m)) => out.push(json!({
                    "real": h.iter().map(id_of).collect::<Vec<_>>(), "model": m, "len": h.len(),
                    "alloc": h.verif_alloc_id() % 100_000, "view": h.verif_view().map(|(a, b)| vec![a, b]),
                    "alloc_len": h.verif_alloc_len(), "strong": h.verif_strong_count()})),
                _ => out.push(J::Null),
            }
        }
        J::Array(out)
    }
}

fn replay(handles: usize, seq: &[Op], st: &mut Stats) -> Result<State, (usize, String)> {
    let mut s = State::new(handles);
    for (k, op) in seq.iter().enumerate() {
        s.apply(*op, st).map_err(|e| (k, e))?;
    }
    Ok(s)
}

struct Explorer {
    handles: usize,
    prune: bool,
    seen: HashMap<Vec<u32>, u8>,
    st: Stats,
    scratch: Stats,
    violations: Vec<J>,
    node_budget: u64,
    exhausted: bool,
}

impl Explorer {
    /// `seq` has been executed and checked up to its last element; explore its extensions
    fn dfs(&mut self, seq: &mut Vec<Op>, left: u8) {
        if self.violations.len() >= 10 || self.exhausted {
            return;
        }
        // rebuild the state (handles cannot be deep-copied without changing the sharing structure)
        let state = match replay(self.handles, seq, &mut self.scratch) {
            Ok(s) => s,
            Err(_) => return, // cannot happen: the prefix was executed before
        };
        if left == 0 {
            self.st.leaves += 1;
            return;
        }
        if self.prune {
            let key = state.canonical();
            match self.seen.get(&key) {
                Some(d) if *d >= left => {
                    self.st.pruned += 1;
                    return;
                }
                _ => {
                    self.seen.insert(key, left);
                }
            }
        }
        let ops = state.enabled();
        drop(state);
        for op in ops {
            self.step(seq, op, left);
        }
    }

    fn step(&mut self, seq: &mut Vec<Op>, op: Op, left: u8) {
        if self.st.nodes >= self.node_budget {
            self.exhausted = true;
            return;
        }
        self.st.nodes += 1;
        let mut state = match replay(self.handles, seq, &mut self.scratch) {
            Ok(s) => s,
            Err(_) => return,
        };
        seq.push(op);
        let r = state.apply(op, &mut self.st).and_then(|_| state.compare_all(&mut self.st));
        match r {
            Err(why) => {
                self.violations.push(json!({
                    "handles": self.handles,
                    "seq": seq.iter().map(|o| o.to_json()).collect::<Vec<_>>(),
                    "why": why, "state": state.dump()}));
            }
            Ok(()) => {
                drop(state);
                self.dfs(seq, left - 1);
            }
        }
        seq.pop();
    }
}

/// {"op":"listcheck","handles":3,"depth":5,"shard":k,"nshards":n,"prune":true}
pub fn op_listcheck(req: &J) -> J {
    let handles = req.get("handles").and_then(|v| v.as_u64()).unwrap_or(3) as usize;
    let depth = req.get("depth").and_then(|v| v.as_u64()).unwrap_or(4) as u8;
    let shard = req.get("shard").and_then(|v| v.as_u64()).unwrap_or(0);
    let nshards = req.get("nshards").and_then(|v| v.as_u64()).unwrap_or(1).max(1);
    let prune = req.get("prune").and_then(|v| v.as_bool()).unwrap_or(true);
    let budget = req.get("node_budget").and_then(|v| v.as_u64()).unwrap_or(u64::MAX);
    let mut ex = Explorer {
        handles,
        prune,
        seen: HashMap::new(),
        st: Stats::default(),
        scratch: Stats::default(),
        violations: vec![],
        node_budget: budget,
        exhausted: false,
    };
    // shard on the first two operations
    let mut k = 0u64;
    let root = State::new(handles);
    let first = root.enabled();
    drop(root);
    let mut seq = Vec::new();
    for a in first {
        if depth == 0 {
            break;
        }
        let mut sc = Stats::default();
        let mut s1 = State::new(handles);
        if s1.apply(a, &mut sc).is_err() {
            continue;
        }
        if depth == 1 {
            if k % nshards == shard {
                ex.step(&mut seq, a, depth);
            }
            k += 1;
            continue;
        }
        // the one-operation prefix is checked by shard 0
        if shard == 0 {
            ex.st.nodes += 1;
            if let Err(why) = s1.compare_all(&mut ex.st) {
                ex.violations.push(json!({"handles": handles, "seq": [a.to_json()], "why": why, "state": s1.dump()}));
            }
        }
        let second = s1.enabled();
        drop(s1);
        seq.push(a);
        for b in second {
            if k % nshards == shard {
                ex.step(&mut seq, b, depth - 1);
            }
            k += 1;
        }
        seq.pop();
    }
    json!({"ok": true, "stats": ex.st.to_json(), "distinct_states": ex.seen.len(), "exhausted_budget": ex.exhausted,
           "violations": ex.violations, "handles": handles, "depth": depth, "prune": prune})
}

struct Rng(u64);
impl Rng {
    fn next(&mut self) -> u64 {
        // splitmix64
        self.0 = self.0.wrapping_add(0x9E37_79B9_7F4A_7C15);
        let mut z = self.0;
        z = (z ^ (z >> 30)).wrapping_mul(0xBF58_476D_1CE4_E5B9);
        z = (z ^ (z >> 27)).wrapping_mul(0x94D0_49BB_1331_11EB);
        z ^ (z >> 31)
    }
    fn below(&mut self, n: usize) -> usize {
        (self.next() % n as u64) as usize
    }
}

/// {"op":"listfuzz","handles":6,"len":300,"count":1000,"seed":s}
pub fn op_listfuzz(req: &J) -> J {
    let handles = req.get("handles").and_then(|v| v.as_u64()).unwrap_or(6) as usize;
    let len = req.get("len").and_then(|v| v.as_u64()).unwrap_or(200) as usize;
    let count = req.get("count").and_then(|v| v.as_u64()).unwrap_or(100) as usize;
    let seed = req.get("seed").and_then(|v| v.as_u64()).unwrap_or(0);
    let mut st = Stats::default();
    let mut violations = vec![];
    let mut distinct: std::collections::HashSet<Vec<u32>> = Default::default();
    for c in 0..count {
        let mut rng = Rng(seed.wrapping_mul(0x1000_0000_01B3).wrapping_add(c as u64));
        let mut s = State::new(handles);
        let mut seq: Vec<Op> = vec![];
        // per-sequence bias: some sequences grow, some shrink, some clone a lot
        let bias = rng.below(4);
        for _ in 0..len {
            let ops = s.enabled();
            let op = loop {
                let op = ops[rng.below(ops.len())];
                let keep = match (bias, op) {
                    (0, Op::Drop(_)) | (0, Op::Head(_)) => rng.below(4) == 0,
                    (1, Op::PushFront(_)) | (1, Op::PushBack(_)) => rng.below(3) == 0,
                    (2, Op::New(_)) | (2, Op::WithCap(_)) | (2, Op::Lit(_)) | (2, Op::VmLit(_)) => rng.below(4) == 0,
                    _ => true,
                };
                if keep {
                    break op;
                }
            };
            seq.push(op);
            st.nodes += 1;
            if let Err(why) = s.apply(op, &mut st).and_then(|_| s.compare_all(&mut st)) {
                violations.push(json!({"handles": handles, "seq": seq.iter().map(|o| o.to_json()).collect::<Vec<_>>(),
                                       "why": why, "state": s.dump()}));
                break;
            }
            if distinct.len() < 2_000_000 {
                distinct.insert(s.canonical());
            }
        }
        st.leaves += 1;
        if violations.len() >= 5 {
            break;
        }
    }
    json!({"ok": true, "stats": st.to_json(), "distinct_states": distinct.len(), "violations": violations,
           "handles": handles, "len": len, "count": count})
}

/// {"op":"listrun","handles":3,"seq":[["new",0],["push_front",0],...]}
pub fn op_listrun(req: &J) -> J {
    let handles = req.get("handles").and_then(|v| v.as_u64()).unwrap_or(3) as usize;
    let Some(seq) = req.get("seq").and_then(|v| v.as_array()) else {
        return json!({"ok": false, "harness_error": "seq missing"});
    };
    let mut st = Stats::default();
    let mut s = State::new(handles);
    let mut steps = vec![];
    for (k, j) in seq.iter().enumerate() {
        let Some(op) = Op::from_json(j) else {
            return json!({"ok": false, "harness_error": format!("bad op {j}")});
        };
        let valid = match op {
            Op::New(a) | Op::WithCap(a) | Op::Lit(a) | Op::VmLit(a) => (a as usize) < handles,
            Op::CloneTo(a, b) => (a as usize) < handles && s.live(b),
            Op::PushFront(a) | Op::PushBack(a) | Op::Tail(a) | Op::Head(a) | Op::Drop(a) => s.live(a),
        };
        if !valid {
            return json!({"ok": false, "harness_error": format!("op {j} not enabled at step {k}")});
        }
        let r = s.apply(op, &mut st).and_then(|_| s.compare_all(&mut st));
        steps.push(json!({"op": j, "state": s.dump(), "problem": r.as_ref().err()}));
        if let Err(why) = r {
            return json!({"ok": true, "violated": true, "step": k, "why": why, "steps": steps});
        }
    }
    json!({"ok": true, "violated": false, "steps": steps, "stats": st.to_json()})
}

/// stand-alone entry (used under Miri): `nbserve listcheck <handles> <depth> [prune]`
pub fn main_standalone(args: &[String]) -> i32 {
    let handles: u64 = args.first().and_then(|s| s.parse().ok()).unwrap_or(2);
    let depth: u64 = args.get(1).and_then(|s| s.parse().ok()).unwrap_or(3);
    let prune = args.get(2).map(|s| s != "noprune").unwrap_or(true);
    let shard: u64 = args.get(3).and_then(|s| s.parse().ok()).unwrap_or(0);
    let nshards: u64 = args.get(4).and_then(|s| s.parse().ok()).unwrap_or(1);
    let r = op_listcheck(&json!({"handles": handles, "depth": depth, "prune": prune, "shard": shard, "nshards": nshards}));
    println!("{r}");
    if r["violations"].as_array().map(|a| a.is_empty()).unwrap_or(false) {
        0
    } else {
        1
    }
}
