"""C02 — static checking accepts exactly the dimensionally consistent programs."""
import json

from ..core import get_worker, rng_for, WorkerDied, WorkerTimeout
from ..unitdb import load_unitdb, type_dim, dim_text
from ..gen import UnitPool
from ..gen_prog import ProgGen

LEVEL = "exploration"
RULE = ("seeded random multi-statement inputs whose every expression carries its dimension vector by construction "
        "(annotated/unannotated let, fn with concrete, generic, inferred and where-clause forms, unit and dimension "
        "definitions, structs, lists, prints; + - * / ^const -> if calls to generated and library-generic functions; uses of "
        "the last-result identifiers `ans` / `_` after expression statements, which have that statement's type): "
        "(1) the input must be accepted and the type reported for every let/unit/expression/concrete fn must equal the "
        "constructed vector; (2) for 1-3 mutants per program — one sub-expression at a place where equality of "
        "dimensions is required (+, -, comparison, ->, if-branches, list elements, annotation, argument, return type, "
        "struct field) replaced by a non-polymorphic expression of another dimension — the input must be rejected with a "
        "type error, print nothing and define nothing (names compared with the session before). The mutant is placed "
        "after statements that print and define. distinct = input text; non-trivial = mutants and programs with >= 2 "
        "statements")
EXHAUSTIVE = {"quick": False, "thorough": False}
FLOOR = {"quick": 1500, "thorough": 30000}
ASSUMPTIONS = ["zero, inf and NaN literals are dimension-polymorphic in numbat by design and are never generated here, so every "
               "mutation site is a genuine inconsistency", "exponents are restricted to values that are exact in f64"]
NSHARDS = 16


def shards(tier, seed):
    n = 2000 if tier == "quick" else 40000
    return [{"idx": i, "n": NSHARDS, "seed": seed, "count": n // NSHARDS} for i in range(NSHARDS)]


def names_of(w, sid):
    n = w.call({"op": "names", "sid": sid})
    return {k: n[k] for k in ("variables", "functions", "units", "dimensions")}


def run_program(sh, w, db, pool, rng, k):
    pg = ProgGen(rng, db, pool, tag=f"c{k}", allow_inexact=False, allow_zero=False)
    stmts = []
    for _ in range(rng.randint(1, 6)):
        try:
            s = pg.statement(depth=rng.choice([1, 2, 2, 3]))
        except (ArithmeticError, ValueError, TypeError):
            sh.count("generator_discard")
            continue
        if s:
            stmts.append(s)
    if not stmts:
        return
    code = "\n".join(s["text"] for s in stmts)
    case = {"code": code}
    sh.count("statements_using_ans", sum(1 for s in stmts if s.get("uses_ans")))
    sid = w.fork("p")
    try:
        r = w.eval(sid, code, stmts=True)
        if r.get("status") == "panic":
            sh.count("panics_left_to_C08")
            return
        sh.judged()
        if not r.get("ok"):
            if r.get("stage") == "runtime":
                sh.count("runtime_errors_after_acceptance")     # accepted; value-dependent failure (C01 looks at the kind)
            else:
                sh.violation(case, f"a program that is well-dimensioned by construction is rejected: {r.get('stage')}/"
                                   f"{r.get('kind')}: {r.get('msg')}\n{code}")
                return
        else:
            # reported types
            reported = r.get("stmts") or []
            # statements of kind struct expand to two numbat statements
            idx = 0
            for s in stmts:
                rs = reported[idx] if idx < len(reported) else None
                if s["kind"] == "struct":
                    idx += 2
                    continue
                idx += 1
                if rs is None:
                    break
                if s["kind"] in ("let", "unit", "expr") and s["dim"] is not None:
                    got = type_dim(rs.get("type"))
                    if got is None:
                        sh.violation(case, f"`{s['text']}`: reported type {json.dumps(rs.get('type'))[:200]} is not a dimension")
                    elif got != s["dim"]:
                        sh.violation(case, f"`{s['text']}`: reported type {dim_text(got)}, dimensional analysis gives {dim_text(s['dim'])}")
                    sh.count("types_compared")
                elif s["kind"] == "fn" and "ret_dim" in s:
                    t = rs.get("type") or {}
                    if t.get("t") == "fn":
                        got_r = type_dim(t.get("ret"))
                        got_a = [type_dim(a) for a in t.get("args", [])]
                        if got_r != s["ret_dim"] or got_a != s["param_dims"]:
                            sh.violation(case, f"`{s['text']}`: reported signature ({[dim_text(a) if a is not None else '?' for a in got_a]}) -> "
                                               f"{dim_text(got_r) if got_r is not None else '?'}, constructed "
                                               f"({[dim_text(a) for a in s['param_dims']]}) -> {dim_text(s['ret_dim'])}")
                        sh.count("signatures_compared")
                    else:
                        sh.violation(case, f"`{s['text']}`: concrete function has a generic reported type {json.dumps(t)[:200]}")
        if len(stmts) >= 2:
            sh.nontrivial(code)
        if len(sh.samples) < 2:
            sh.sample({"program": code, "accepted": bool(r.get("ok"))})
    finally:
        w.drop(sid)
    # mutants: each in a fresh fork; preceded by a print and a definition that must not take effect
    for _ in range(rng.randint(1, 3)):
        i = rng.randrange(len(stmts))
        try:
            m = pg.mutate(stmts[i])
        except (ArithmeticError, ValueError, TypeError):
            m = None
        if m is None:
            continue
        mtext, desc = m
        marker = f"vf_marker_{k}"
        lines = [f'print("must not be printed")', f"let {marker} = 1 m"] + [s["text"] for s in stmts[:i]] + [mtext] + \
                [s["text"] for s in stmts[i + 1:]]
        mcode = "\n".join(lines)
        mcase = {"code": mcode, "mutation": desc}
        sid = w.fork("p")
        try:
            before = names_of(w, sid)
            r = w.eval(sid, mcode, stmts=False)
            if r.get("status") == "panic":
                sh.count("panics_left_to_C08")
                continue
            sh.judged()
            after = names_of(w, sid)
            if r.get("ok") or r.get("stage") == "runtime":
                sh.violation(mcase, f"an inconsistent program is accepted ({desc}):\n{mcode}")
            elif r.get("stage") != "type":
                sh.violation(mcase, f"an inconsistent program fails at stage {r.get('stage')}/{r.get('kind')} instead of a type "
                                    f"error ({desc}): {r.get('msg')}")
            else:
                sh.count_in("type_error_kinds", r.get("kind"))
            if r.get("prints"):
                sh.violation(mcase, f"a rejected input printed {r.get('prints')}")
            if after != before:
                sh.violation(mcase, f"a rejected input left definitions behind: {json.dumps(after)[:200]}")
            sh.nontrivial(mcode)
            sh.count("mutants")
            if len(sh.samples) < 4:
                sh.sample({"mutant": mtext, "mutation": desc, "outcome": r.get("kind")})
        finally:
            w.drop(sid)


def run_shard(sh, spec):
    w = get_worker()
    db = load_unitdb(w)
    pool = UnitPool(db)
    rng = rng_for(spec["seed"], "C02", spec["idx"])
    for k in range(spec["count"]):
        try:
            run_program(sh, w, db, pool, rng, f"{spec['idx']}x{k}")
        except (WorkerDied, WorkerTimeout):
            sh.count("worker_died_left_to_C08")
            w.restart()


def replay(sh, case):
    w = get_worker()
    sid = w.fork("p")
    r = w.eval(sid, case["code"], stmts=False)
    print("outcome:", "accepted" if r.get("ok") else (r.get("stage"), r.get("kind"), r.get("msg")))
    sh.judged()
    if "mutation" in case and (r.get("ok") or r.get("stage") != "type"):
        sh.violation(case, f"inconsistent program not rejected with a type error ({case['mutation']})")
    if "mutation" not in case and not r.get("ok") and r.get("stage") != "runtime":
        sh.violation(case, f"well-dimensioned program rejected: {r.get('msg')}")


LEVEL_TEXT = ("Seeded random exploration with generator-side ground truth: programs carry their dimension vectors by construction "
              "(an independent dimensional analysis over Q); the real type checker's accept/reject decision and every reported "
              "type are compared with it, and constructed inconsistencies (one mutated equality site each) must be rejected as "
              "type errors before anything runs (print capture + name listing before/after).")
LEVEL_NOTE = ("Trusted: the generator's dimension bookkeeping and the soundness of its mutation sites (no polymorphic zero/inf/NaN "
              "literals are generated); unit dimensions come from the UnitDB model computed from unit definitions.")
TECHNIQUE = "runtime monitoring: type-checker verdicts and reported types vs constructed dimensional ground truth, with mutation-based negative cases"
