//! Serialisation of observations (values, units, types, typed-AST nodes, VM events).
//! Floats cross the pipe as bit patterns, so the monitor sees exactly what numbat computed.

use numbat::pretty_print::PrettyPrint;
use numbat::value::Value;
use numbat::verif::typed_ast::{DType, DTypeFactor, Expression, Statement, StringPart, Type};
use numbat::verif::types::TypeScheme;
use numbat::verif::{self, Event, Exponent, Prefix, Quantity, Span, Unit};
use numbat::Context;
use serde_json::{json, Map, Value as J};

use crate::{html, plain};

pub fn f64_json(x: f64) -> J {
    json!({"r": format!("{x:?}"), "b": format!("{:016x}", x.to_bits())})
}

pub fn exp_json(e: &Exponent) -> J {
    // i128 does not fit JSON numbers in general: send as strings
    json!([e.numer().to_string(), e.denom().to_string()])
}

pub fn prefix_json(p: &Prefix) -> J {
    match p {
        Prefix::Metric(e) => json!(["m", e]),
        Prefix::Binary(e) => json!(["b", e]),
    }
}

pub fn unit_json(u: &Unit) -> J {
    J::Array(
        u.iter()
            .map(|f| {
                json!({
                    "name": f.unit_id.name.as_str(),
                    "canon": f.unit_id.canonical_name.name.as_str(),
                    "base": f.unit_id.is_base(),
                    "prefix": prefix_json(&f.prefix),
                    "exp": exp_json(&f.exponent),
                })
            })
            .collect(),
    )
}

pub fn quantity_json(q: &Quantity) -> J {
    json!({
        "t": "q",
        "v": f64_json(q.unsafe_value().to_f64()),
        "unit": unit_json(q.unit()),
        "unit_text": q.unit().to_string(),
        "text": plain(&q.pretty_print()),
        "simp": q.can_simplify(),
    })
}

thread_local! {
    /// when set, list values are reported with their sharing structure (only C18 asks for it:
    /// addresses differ between otherwise identical sessions)
    pub static SHARING: std::cell::Cell<bool> = const { std::cell::Cell::new(false) };
}

pub fn value_json(v: &Value) -> J {
    match v {
        Value::Quantity(q) => quantity_json(q),
        Value::Boolean(b) => json!({"t": "b", "v": b}),
        Value::String(s) => json!({"t": "s", "v": s.as_str()}),
        Value::DateTime(dt) => json!({
            "t": "dt",
            "ns": dt.timestamp().as_nanosecond().to_string(),
            "tz": dt.time_zone().iana_name().map(|s| s.to_string()),
            "offset_s": dt.offset().seconds(),
            "text": dt.to_string(),
        }),
        Value::FunctionReference(r) => {
            use numbat::value::FunctionReference as F;
            match r {
                F::Foreign(n) => json!({"t": "fn", "kind": "foreign", "name": n.as_str()}),
                F::Normal(n, ..) => json!({"t": "fn", "kind": "normal", "name": n.as_str()}),
                F::TzConversion(n) => json!({"t": "fn", "kind": "tz", "name": n.as_str()}),
            }
        }
        Value::FormatSpecifiers(s) => json!({"t": "fmt", "v": s.as_ref().map(|s| s.as_str())}),
        Value::StructInstance(info, values) => json!({
            "t": "struct",
            "name": info.name.as_str(),
            "fields": info.fields.keys().zip(values.iter())
                .map(|(k, v)| json!([k.as_str(), value_json(v)])).collect::<Vec<_>>(),
            "nvalues": values.len(),
            "nfields": info.fields.len(),
        }),
        Value::List(l) if SHARING.with(|s| s.get()) => json!({
            "t": "list",
            "items": l.iter().map(value_json).collect::<Vec<_>>(),
            // sharing structure (hook H6): which allocation, through which window, how many owners
            "alloc": l.verif_alloc_id(),
            "view": l.verif_view().map(|(a, b)| vec![a, b]),
            "alloc_len": l.verif_alloc_len(),
            "strong": l.verif_strong_count(),
        }),
        Value::List(l) => json!({
            "t": "list",
            "items": l.iter().map(value_json).collect::<Vec<_>>(),
        }),
    }
}

pub fn span_json(s: &Span) -> J {
    json!([s.code_source_id, s.start.0, s.end.0])
}

fn dtype_json(d: &DType) -> J {
    let mut closed = true;
    let mut factors = vec![];
    for (f, e) in d.factors() {
        match f {
            DTypeFactor::BaseDimension(name) => {
                factors.push(json!([name.as_str(), exp_json(e)]));
            }
            _ => {
                closed = false;
            }
        }
    }
    if closed {
        json!({"t": "dim", "base": factors})
    } else {
        json!({"t": "dim_open", "text": d.to_string()})
    }
}

pub fn type_json(t: &Type) -> J {
    match t {
        Type::TVar(_) | Type::TPar(_) => json!({"t": "open"}),
        Type::Dimension(d) => dtype_json(d),
        Type::Boolean => json!({"t": "bool"}),
        Type::String => json!({"t": "string"}),
        Type::DateTime => json!({"t": "datetime"}),
        Type::Fn(args, ret) => json!({
            "t": "fn",
            "args": args.iter().map(type_json).collect::<Vec<_>>(),
            "ret": type_json(ret),
        }),
        Type::Struct(info) => json!({
            "t": "struct",
            "name": info.name.as_str(),
            "fields": info.fields.iter()
                .map(|(k, (_, ty))| json!([k.as_str(), type_json(ty)])).collect::<Vec<_>>(),
        }),
        Type::List(e) => json!({"t": "list", "elem": type_json(e)}),
    }
}

pub fn scheme_json(ts: &TypeScheme) -> J {
    match ts {
        TypeScheme::Concrete(t) => type_json(t),
        TypeScheme::Quantified(0, qt) => type_json(&qt.inner),
        TypeScheme::Quantified(n, qt) => {
            json!({"t": "generic", "n": n, "inner": type_json(&qt.inner), "text": plain(&ts.pretty_print())})
        }
    }
}

fn pretty_pair(m: &numbat::markup::Markup, want_html: bool) -> (J, J) {
    (
        json!(plain(m)),
        if want_html { json!(html(m)) } else { J::Null },
    )
}

pub fn statement_json(s: &Statement, want_html: bool) -> J {
    let (pretty, pretty_html) = pretty_pair(&s.pretty_print(), want_html);
    let mut m = Map::new();
    m.insert("pretty".into(), pretty);
    if want_html {
        m.insert("pretty_html".into(), pretty_html);
    }
    match s {
        Statement::Expression(e) => {
            m.insert("kind".into(), json!("expr"));
            m.insert("type".into(), scheme_json(&e.get_type_scheme()));
        }
        Statement::DefineVariable(dv) => {
            m.insert("kind".into(), json!("let"));
            m.insert("name".into(), json!(dv.name));
            m.insert("type".into(), scheme_json(&dv.type_scheme));
            m.insert("readable".into(), json!(plain(&dv.readable_type)));
            m.insert("annotated".into(), json!(dv.type_annotation.is_some()));
        }
        Statement::DefineFunction {
            function_name,
            fn_type,
            parameters,
            readable_return_type,
            body,
            type_parameters,
            ..
        } => {
            m.insert("kind".into(), json!("fn"));
            m.insert("name".into(), json!(function_name));
            m.insert("type".into(), scheme_json(fn_type));
            m.insert(
                "params".into(),
                J::Array(
                    parameters
                        .iter()
                        .map(|(_, name, ann, readable)| {
                            json!({"name": name, "annotated": ann.is_some(), "readable": plain(readable)})
                        })
                        .collect(),
                ),
            );
            m.insert("readable_return".into(), json!(plain(readable_return_type)));
            m.insert("foreign".into(), json!(body.is_none()));
            m.insert(
                "type_params".into(),
                J::Array(type_parameters.iter().map(|(n, _)| json!(n)).collect()),
            );
        }
        Statement::DefineDimension(name, _) => {
            m.insert("kind".into(), json!("dimension"));
            m.insert("name".into(), json!(name));
        }
        Statement::DefineBaseUnit {
            name, type_scheme, ..
        } => {
            m.insert("kind".into(), json!("base_unit"));
            m.insert("name".into(), json!(name));
            m.insert("type".into(), scheme_json(type_scheme));
        }
        Statement::DefineDerivedUnit {
            name,
            type_scheme,
            readable_type,
            ..
        } => {
            m.insert("kind".into(), json!("unit"));
            m.insert("name".into(), json!(name));
            m.insert("type".into(), scheme_json(type_scheme));
            m.insert("readable".into(), json!(plain(readable_type)));
        }
        Statement::ProcedureCall { kind, .. } => {
            m.insert("kind".into(), json!("proc"));
            m.insert("name".into(), json!(format!("{kind:?}")));
        }
        Statement::DefineStruct(info) => {
            m.insert("kind".into(), json!("struct"));
            m.insert("name".into(), json!(info.name.as_str()));
        }
    }
    J::Object(m)
}

// ---------------------------------------------------------------------------------
// flattened typed-AST nodes: the span the compiler attaches to the instruction that
// produces the node's value, and the static type of the node

fn push_node(nodes: &mut Vec<J>, kind: &str, span: Span, ts: &TypeScheme, extra: J) {
    nodes.push(json!({"k": kind, "span": span_json(&span), "type": scheme_json(ts), "x": extra}));
}

fn in_between(left: Span, right: Span) -> Span {
    Span {
        start: left.end,
        end: right.start.max(left.end),
        code_source_id: left.code_source_id,
    }
}

pub fn collect_expr(e: &Expression, nodes: &mut Vec<J>) {
    match e {
        Expression::Scalar { .. }
        | Expression::Identifier { .. }
        | Expression::UnitIdentifier { .. }
        | Expression::Boolean(..)
        | Expression::TypedHole(..) => {}
        Expression::UnaryOperator {
            span,
            op,
            expr,
            type_scheme,
        } => {
            collect_expr(expr, nodes);
            push_node(nodes, "unop", *span, type_scheme, json!(format!("{op:?}")));
        }
        Expression::BinaryOperator {
            op_span,
            op,
            lhs,
            rhs,
            type_scheme,
        } => {
            collect_expr(lhs, nodes);
            collect_expr(rhs, nodes);
            let span = op_span.unwrap_or_else(|| in_between(lhs.full_span(), rhs.full_span()));
            push_node(nodes, "binop", span, type_scheme, json!(format!("{op:?}")));
        }
        Expression::BinaryOperatorForDate { lhs, rhs, .. } => {
            collect_expr(lhs, nodes);
            collect_expr(rhs, nodes);
        }
        Expression::FunctionCall {
            full_span,
            name,
            args,
            type_scheme,
            ..
        } => {
            for a in args {
                collect_expr(a, nodes);
            }
            let arg_types: Vec<J> = args.iter().map(|a| scheme_json(&a.get_type_scheme())).collect();
            push_node(
                nodes,
                "call",
                *full_span,
                type_scheme,
                json!({"name": name, "args": arg_types}),
            );
        }
        Expression::CallableCall {
            full_span,
            callable,
            args,
            type_scheme,
        } => {
            for a in args {
                collect_expr(a, nodes);
            }
            collect_expr(callable, nodes);
            let arg_types: Vec<J> = args.iter().map(|a| scheme_json(&a.get_type_scheme())).collect();
            push_node(
                nodes,
                "callable",
                *full_span,
                type_scheme,
                json!({"args": arg_types}),
            );
        }
        Expression::Condition {
            condition,
            then_expr,
            else_expr,
            ..
        } => {
            collect_expr(condition, nodes);
            collect_expr(then_expr, nodes);
            collect_expr(else_expr, nodes);
        }
        Expression::String(_, parts) => {
            for p in parts {
                if let StringPart::Interpolation { expr, .. } = p {
                    collect_expr(expr, nodes);
                }
            }
        }
        Expression::InstantiateStruct { fields, .. } => {
            for (_, e) in fields {
                collect_expr(e, nodes);
            }
        }
        Expression::AccessField { expr, .. } => {
            collect_expr(expr, nodes);
        }
        Expression::List { elements, .. } => {
            for e in elements {
                collect_expr(e, nodes);
            }
        }
    }
}

pub fn collect_nodes(s: &Statement, nodes: &mut Vec<J>) {
    match s {
        Statement::Expression(e) => collect_expr(e, nodes),
        Statement::DefineVariable(dv) => collect_expr(&dv.expr, nodes),
        Statement::DefineFunction {
            body,
            local_variables,
            ..
        } => {
            for lv in local_variables {
                collect_expr(&lv.expr, nodes);
            }
            if let Some(b) = body {
                collect_expr(b, nodes);
            }
        }
        Statement::DefineDerivedUnit { expr, .. } => collect_expr(expr, nodes),
        Statement::ProcedureCall { args, .. } => {
            for a in args {
                collect_expr(a, nodes);
            }
        }
        Statement::DefineDimension(..)
        | Statement::DefineBaseUnit { .. }
        | Statement::DefineStruct(..) => {}
    }
}

pub fn event_json(e: &Event) -> J {
    match e {
        Event::OpResult {
            op,
            span,
            depth,
            value,
        } => json!({"e": "op", "op": op, "span": span_json(span), "depth": depth, "value": value_json(value)}),
        Event::Call {
            callee,
            span,
            depth,
            args,
        } => json!({"e": "call", "callee": callee.as_str(), "span": span_json(span), "depth": depth,
                    "args": args.iter().map(value_json).collect::<Vec<_>>()}),
        Event::Return {
            callee,
            span,
            depth,
            value,
        } => json!({"e": "ret", "callee": callee.as_str(), "span": span_json(span), "depth": depth, "value": value_json(value)}),
        Event::FfiReturn {
            callee,
            span,
            depth,
            value,
        } => json!({"e": "ffi", "callee": callee.as_str(), "span": span_json(span), "depth": depth, "value": value_json(value)}),
        Event::InvalidOpcode { chunk, ip, byte } => {
            json!({"e": "invalid_opcode", "chunk": chunk, "ip": ip, "byte": byte})
        }
    }
}

/// Every unit of the session: names, aliases with accepted-prefix flags, declared
/// dimension (base-dimension exponents), and the *direct* definition.
pub fn unitdb_json(ctx: &Context) -> J {
    let base: std::collections::HashSet<String> = ctx.base_units().map(|s| s.to_string()).collect();
    let mut units = vec![];
    for (name, (base_repr, md)) in ctx.unit_representations() {
        let mut m = Map::new();
        m.insert("name".into(), json!(name.as_str()));
        m.insert("is_base".into(), json!(base.contains(name.as_str())));
        m.insert("canonical".into(), json!(md.canonical_name.name.as_str()));
        m.insert(
            "canonical_accepts".into(),
            json!([md.canonical_name.accepts_prefix.short, md.canonical_name.accepts_prefix.long]),
        );
        m.insert(
            "aliases".into(),
            J::Array(
                md.aliases
                    .iter()
                    .map(|(a, ap)| json!([a.as_str(), ap.short, ap.long]))
                    .collect(),
            ),
        );
        m.insert("metric".into(), json!(md.metric_prefixes));
        m.insert("binary".into(), json!(md.binary_prefixes));
        m.insert("abbreviation".into(), json!(md.is_abbreviation));
        m.insert("dim".into(), type_json(&md.type_));
        m.insert("readable_type".into(), json!(plain(&md.readable_type)));
        m.insert(
            "base_repr".into(),
            J::Array(
                base_repr
                    .iter()
                    .map(|f| json!([f.0.as_str(), exp_json(&f.1)]))
                    .collect(),
            ),
        );
        if let Some(u) = verif::unit_constant(ctx, &name) {
            m.insert("self_unit".into(), unit_json(u));
            let mut defs = vec![];
            for f in u.iter() {
                let verif::BaseUnitAndFactor(def_unit, factor) = f.unit_id.unit_and_factor();
                defs.push(json!({"factor": f64_json(factor.to_f64()), "unit": unit_json(&def_unit)}));
            }
            m.insert("definition".into(), J::Array(defs));
        }
        units.push(J::Object(m));
    }
    json!({"ok": true, "units": units})
}
