"""C06 — a failing input leaves the session unchanged (forked-twin comparison with fault injection)."""
import json

from ..core import get_worker, rng_for, WorkerDied, WorkerTimeout
from ..gen_session import SessionGen, EXTRA_MODULES, MODULE_PROBE, observation

LEVEL = "fault_enumeration"
RULE = ("seeded random sessions (<= 12 inputs: variables, functions, units with aliases/prefixes, dimensions, structs, "
        "lists, imports, prints, ans/_); at a random point the session is forked (Context::clone), the fork alone receives "
        "a failing input F, then both sessions get the same suffix plus a probe battery (re-`use` of every module F "
        "mentioned and a name it defines, re-definition of every name F tried to define, evaluation of every global and "
        "function, names listing, raw values). F enumerates the fault classes: unknown module, parse error, parse/type/"
        "run-time error inside an imported module (fault-injecting importer), failing nested import, identifier clash, "
        "reserved identifier, type errors, run-time errors (division by zero, assert, assert_eq, error(), head([]), date "
        "out of range, non-rational exponent) — each after 0-3 succeeding statements (definitions, prints, first import "
        "of a module). Hook invariant at every quiescent point: VM stack depth == number of global bindings. "
        "distinct = (fault class, F text, history); non-trivial = F contains at least one statement that would have "
        "succeeded on its own before the failing one")
EXHAUSTIVE = {"quick": False, "thorough": False}
FLOOR = {"quick": 200, "thorough": 3000}
ASSUMPTIONS = ["two sessions are 'the same' when every later observation agrees: results (structured, bit for bit), error stage/kind/"
               "message and rendered diagnostic modulo <input:N> labels, print output, names and raw values of globals"]
NSHARDS = 16

VF_MODULES = {
    "vf::ok_a": "let vfm_a = 11 m\nfn vfm_fa(x) = 2 x\nunit vfm_ua = 3 m",
    "vf::ok_b": "let vfm_b = 22 s",
    "vf::ok_c": "use vf::ok_b\nlet vfm_c = vfm_b * 2",
    "vf::parse_err": "let vfm_p = 1\nlet vfm_q = (1 +\n",
    "vf::type_err": "let vfm_t1 = 1 m\nlet vfm_t2: Time = vfm_t1",
    "vf::rt_err": "let vfm_r1 = 5 kg\nlet vfm_r2 = 1 / 0",
    "vf::nested_fail": "use vf::ok_b\nlet vfm_n1 = vfm_b\nlet vfm_n2 = 1 m + 1 s",
    "vf::nested_rt": "use vf::ok_a\nlet vfm_m1 = vfm_a\nassert(vfm_a < 1 m)",
}
VF_PROBE = {"vf::ok_a": "vfm_a + vfm_fa(1 m) + 1 vfm_ua", "vf::ok_b": "vfm_b", "vf::ok_c": "vfm_c",
            "vf::parse_err": "vfm_p", "vf::type_err": "vfm_t1", "vf::rt_err": "vfm_r1", "vf::nested_fail": "vfm_n1",
            "vf::nested_rt": "vfm_m1"}

FAILING = [
    # (class, failing statement template, modules it mentions, names it tries to define)
    ("unknown_module", "use vf::does_not_exist", [], []),
    ("unknown_module", "use units::nope", [], []),
    ("parse", "let {N} = (1 +", [], ["{N}"]),
    ("parse", "1 +* 2", [], []),
    ("parse", "fn {N}(x = 2", [], ["{N}"]),
    ("module_parse", "use vf::parse_err", ["vf::parse_err"], []),
    ("module_type", "use vf::type_err", ["vf::type_err"], []),
    ("module_runtime", "use vf::rt_err", ["vf::rt_err"], []),
    ("module_nested", "use vf::nested_fail", ["vf::nested_fail", "vf::ok_b"], []),
    ("module_nested", "use vf::nested_rt", ["vf::nested_rt", "vf::ok_a"], []),
    ("name_clash", "let sin = 1", [], []),
    ("name_clash", "fn {N}(m) = 1", [], ["{N}"]),
    ("name_clash", "unit {N}\nunit {N}", [], ["{N}"]),
    ("reserved", "let _ = 1", [], []),
    ("reserved", "let ans = 1", [], []),
    ("type", "let {N} = 1 m + 1 s", [], ["{N}"]),
    ("type", "let {N}: Length = 1 s", [], ["{N}"]),
    ("type", "fn {N}(x: Length) -> Time = x", [], ["{N}"]),
    ("type", "{N}_undefined", [], []),
    ("type", "unit {N}: Length = 1 s", [], ["{N}"]),
    ("type", "sqrt(\"a\")", [], []),
    ("type", "if 1 then 2 else 3", [], []),
    ("type", "[1 m, 1 s]", [], []),
    ("type", "struct {N}S {{ a: Length }}\n{N}S {{ a: 1 s }}", [], []),
    ("runtime", "let {N} = 1 / 0", [], ["{N}"]),
    ("runtime", "assert(1 m > 2 m)", [], []),
    ("runtime", "assert_eq(1 m, 2 m)", [], []),
    ("runtime", "assert_eq(1 m, 2 m, 1 cm)", [], []),
    ("runtime", 'let {N} = error("boom")', [], ["{N}"]),
    ("runtime", "let {N} = head([])", [], ["{N}"]),
    ("runtime", 'let {N} = datetime("9999-12-30 00:00:00 UTC") + 5 years', [], ["{N}"]),
    ("runtime", "let {N} = (2 m)^(1/3 + 1e-17) * (1 m)^pi", [], ["{N}"]),
    ("runtime", 'let {N} = datetime("not a date")', [], ["{N}"]),
    ("runtime", 'let {N} = 1 m -> tz("Nowhere/Land")', [], ["{N}"]),
    ("runtime", "unit {N} = 1 m\nlet {N}_q = 1 {N} / 0", [], ["{N}", "{N}_q"]),
    ("runtime", "fn {N}(x) = 1 / x\n{N}(0)", [], ["{N}"]),
    ("runtime", "struct {N}T {{ a: Length }}\nlet {N}_v = {N}T {{ a: 1 m / 0 }}", [], ["{N}_v"]),
    # units with prefixes and aliases defined (and used in prefixed form) by an input that then fails
    ("runtime", "@metric_prefixes\n@aliases({N}s, {N}x: short)\nunit {N}: Length = 3 m\nlet {N}_q = 2 kilo{N} + 1 k{N}x + 1 milli{N}s\nlet {N}_r = {N}_q / 0",
     [], ["{N}", "{N}_q", "kilo{N}", "k{N}x", "milli{N}s", "{N}s"]),
    ("type", "@binary_prefixes\nunit {N} = 2 bit\nlet {N}_z: Time = 1 kibi{N}", [], ["{N}", "{N}_z", "kibi{N}"]),
    ("runtime", "@metric_prefixes\nunit {N}\n1 mega{N} -> {N}\nassert(1 {N} > 2 {N})", [], ["{N}", "mega{N}", "micro{N}"]),
    # inputs made of expression statements only: earlier ones succeed (and would become `ans`), a later one fails
    ("runtime_expr_only", "1 / 0", [], []),
    ("runtime_expr_only", "12 kg\n1 / 0", [], []),
    ("runtime_expr_only", '"text"; 1 + error("boom")', [], []),
    ("runtime_expr_only", "true\nhead([])", [], []),
    ("runtime_expr_only", "[1 s, 2 s]; 3 m; (2 m)^(1/3 + 1e-17) * (1 m)^pi", [], []),
    ("runtime_expr_only", "now(); 5 km/h\nelement_at(7, [1, 2])", [], []),
]

PREFIX_OK = [
    # succeeding statements placed in front of the failing one (would each succeed alone)
    ("let {P} = 5 km", [], ["{P}"]), ('print("from the failing input")', [], []), ("fn {P}(x) = x + 1", [], ["{P}"]),
    ("unit {P} = 7 m", [], ["{P}"]), ("use vf::ok_a", ["vf::ok_a"], []), ("use vf::ok_c", ["vf::ok_c", "vf::ok_b"], []),
    ("use {M}", ["{M}"], []), ("struct {P}S {{ q: Scalar }}", [], []), ("dimension {P}D = Length * Time", [], []),
    ("let {P} = [1, 2, 3]", [], ["{P}"]), ("3 m + 4 m", [], []), ("17 s", [], []), ('"a string"', [], []),
]


def shards(tier, seed):
    n = 1600 if tier == "quick" else 32000
    return [{"idx": i, "n": NSHARDS, "seed": seed, "count": n // NSHARDS} for i in range(NSHARDS)]


def make_failing(rng, k, gen):
    cls, tmpl, mods, names = FAILING[k % len(FAILING)] if rng.random() < 0.5 else rng.choice(FAILING)
    N = gen.fresh("vx")
    lines, modules, defined = [], list(mods), [n.format(N=N) for n in names]
    for _ in range(rng.choice([0, 0, 1, 2, 3])):
        t, m, nm = rng.choice(PREFIX_OK)
        P = gen.fresh("vy")
        M = rng.choice(EXTRA_MODULES)
        lines.append(t.format(P=P, M=M))
        modules += [x.format(M=M) for x in m]
        defined += [x.format(P=P) for x in nm]
    lines.append(tmpl.format(N=N))
    return cls, "\n".join(lines), modules, defined, len(lines) > 1


def probe_battery(gen, modules, defined):
    out = ["ans", "_", "ans + ans"]     # the last result must be the one from before the failing input
    for m in modules:
        out.append(f"use {m}")
        p = VF_PROBE.get(m) or MODULE_PROBE.get(m)
        if p:
            out.append(p)
    for n in defined:
        out.append(n)                       # must be unknown in both
    # more units defined afterwards (name tables grow again), then the names once more and their re-definition
    if defined:
        out += [f"unit vf_pad_{i}_{len(defined)}" for i in range(4)] + ["@metric_prefixes\nunit vf_padp: Time = 3 s", "2 kilovf_padp"]
    for n in defined:
        out.append(n)
        out.append(f"let {n} = 42 m")       # re-definition must work in both
        out.append(n)
    out += gen.probes()
    return out


def run_twin(sh, w, rng, k):
    gen = SessionGen(rng, tag=f"t{k}")
    n_hist = rng.randint(0, 8)
    history = [gen.statement() for _ in range(n_hist)]
    a = w.fork("c6")
    b = None
    case = {"history": history}
    try:
        for h in history:
            r = w.eval(a, h, stmts=False)
            if r.get("status") == "panic":
                sh.count("history_panics_left_to_C08")
                return
            if not r.get("ok"):
                sh.count("history_statement_failed")      # generator imprecision: drop it from the history
                case["history"] = [x for x in case["history"] if x != h]
        b = w.fork(a)
        cls, F, modules, defined, has_ok_prefix = make_failing(rng, k, gen)
        case.update({"fault_class": cls, "F": F})
        rf = w.eval(b, F, stmts=False)
        if rf.get("status") == "panic":
            sh.count("F_panics_left_to_C08")
            return
        if rf.get("ok"):
            sh.count("F_did_not_fail")
            return
        sh.judged()
        sh.count_in("fault_classes", cls)
        sh.count_in("failure_stages", str(rf.get("stage")))
        # invariant hook: stack depth == number of globals after the failing input
        dg = rf.get("digest") or {}
        if dg.get("stack") != dg.get("nglobals") or dg.get("frames") != 1:
            sh.violation(case, f"after the failing input the VM is not quiescent: stack={dg.get('stack')} "
                               f"globals={dg.get('nglobals')} frames={dg.get('frames')}")
        suffix = [gen.statement() for _ in range(rng.randint(0, 4))] if rng.random() < 0.6 else []
        suffix += probe_battery(gen, modules, defined)
        case["suffix"] = suffix
        diffs = []
        for s in suffix:
            ra = w.eval(a, s, stmts=False)
            rb = w.eval(b, s, stmts=False)
            oa, ob = observation(ra), observation(rb)
            if oa != ob:
                diffs.append((s, oa, ob))
            for who, r in (("reference", ra), ("fork", rb)):
                d = r.get("digest") or {}
                if r.get("status") != "panic" and (d.get("stack") != d.get("nglobals") or d.get("frames") != 1):
                    diffs.append((s, f"{who} not quiescent", d))
        na = w.call({"op": "names", "sid": a})
        nb = w.call({"op": "names", "sid": b})
        for key in ("variables", "functions", "units", "dimensions", "imported"):
            if na[key] != nb[key]:
                sa = {json.dumps(x) for x in na[key]}
                sb_ = {json.dumps(x) for x in nb[key]}
                diffs.append((f"<{key}>", sorted(sa - sb_)[:5], sorted(sb_ - sa)[:5]))
        if diffs:
            classify(sh, case, diffs, modules)
        if has_ok_prefix:
            sh.nontrivial(cls, F, tuple(history))
        if len(sh.samples) < 3 and has_ok_prefix:
            sh.sample({"history": history[:3], "F": F, "stage": rf.get("stage"), "kind": rf.get("kind")})
    finally:
        for s in (a, b):
            if s:
                try:
                    w.drop(s)
                except Exception:
                    pass


def classify(sh, case, diffs, modules):
    s, oa, ob = diffs[0]
    sh.violation(case, f"after the failing input `{case['F']}` the session differs from its twin: `{s}` gives "
                       f"{json.dumps(oa)[:300]} in the reference but {json.dumps(ob)[:300]} in the fork "
                       f"({len(diffs)} differences)")


def run_shard(sh, spec):
    w = get_worker()
    sid, r = w.new(sid="c6", use=["prelude"], extra_modules=VF_MODULES)
    if not r.get("ok"):
        raise RuntimeError(f"cannot create base session: {r}")
    rng = rng_for(spec["seed"], "C06", spec["idx"])
    for k in range(spec["count"]):
        try:
            run_twin(sh, w, rng, k + spec["idx"])
        except (WorkerDied, WorkerTimeout) as e:
            sh.count("worker_died_left_to_C08")
            w.restart()
            w.new(sid="c6", use=["prelude"], extra_modules=VF_MODULES)


def replay(sh, case):
    w = get_worker()
    w.new(sid="c6", use=["prelude"], extra_modules=VF_MODULES)
    a = w.fork("c6")
    for h in case.get("history", []):
        w.eval(a, h, stmts=False)
    b = w.fork(a)
    rf = w.eval(b, case["F"], stmts=False)
    print("F:", rf.get("stage"), rf.get("kind"))
    sh.judged()
    diffs = []
    for s in case.get("suffix", []):
        oa, ob = observation(w.eval(a, s, stmts=False)), observation(w.eval(b, s, stmts=False))
        if oa != ob:
            diffs.append((s, oa, ob))
    if diffs:
        s, oa, ob = diffs[0]
        sh.violation(case, f"`{s}`: {json.dumps(oa)[:300]} vs {json.dumps(ob)[:300]}")


LEVEL_TEXT = ("Fault enumeration by forked twins: for every fault class (12 classes, 46 failing templates, each optionally "
              "preceded by statements that would succeed) a failing input is injected into a clone of a random session; the "
              "monitor then drives reference and clone with the same suffix and a probe battery and compares every "
              "observation, plus the quiescence invariant (stack depth == globals) through the hook.")
LEVEL_NOTE = ("Trusted: Context::clone as the way to obtain the twin (C07 checks clone independence separately); observation "
              "equality modulo <input:N> labels; the fault-injecting importer serving vf::* modules.")
TECHNIQUE = "runtime monitoring with fault injection: forked-twin differential monitor + VM quiescence invariant hook"
