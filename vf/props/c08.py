"""C08 — no input crashes or hangs the interpreter (checked build as sanitizer)."""
import re
import time

from ..core import get_worker, rng_for, known_for, WorkerDied, WorkerTimeout
from ..gen_text import Corpus, gen_input, TEMPLATES, EXTREME_LITERALS, mutate_tokens
from ..gen_confuse import all_inputs as kc_inputs, PRELUDE as KC_PRELUDE

LEVEL = "exploration"
RULE = ("hostile text inputs: token/byte-level mutations and splices of the example and module corpus and of the "
        "@example snippets, token-alphabet soup with Unicode, a list of extreme literals/idioms and their mutations, "
        "every prelude function called with hostile arguments (non-finite and extreme numbers with and without units, empty/odd "
        "strings, empty and nested lists, edge dates, function values), "
        "and size-class templates (nesting, operator runs, long identifiers/strings/lists, chains) at sizes 1..1000 "
        "that must pass and 20 000 / 100 000 where unbounded recursion is a documented finding; plus the exhaustive "
        "kind-confusion table (vf/gen_confuse.py): ~300 one-hole constructs (definitions, annotations, decorators, calls, "
        "unary/postfix operators, conversions, lists, conditionals, interpolations with format specifiers, struct "
        "literals, procedures, library functions) x 78 operand spellings of 18 kinds (scalar, quantity, unit, bool, string, "
        "list, datetime, function, procedure, struct, type name, `ans`, typed hole, ...) and 26 binary operators + 58 "
        "two-hole constructs x 22 x 22 operand representatives (~65 000 inputs). Each input runs in a "
        "fresh fork of a prelude session (a sample also in a session with history) in the *checked* build (overflow "
        "checks, debug assertions, opcode-validity hook); every error is rendered to plain text and HTML. Panics are "
        "captured with message and first in-crate frame, crashes by worker death, hangs by a 15 s budget confirmed by an "
        "isolated 120 s re-run. distinct = input text; non-trivial = the input got past the tokenizer (any outcome other "
        "than a tokenizer-level parse error) or was rejected with a diagnostic that was rendered")
EXHAUSTIVE = {"quick": False, "thorough": False}
FLOOR = {"quick": 5000, "thorough": 100000}
ASSUMPTIONS = ["inputs that legitimately demand unbounded resources (huge ranges, string repetition) are not generated",
               "a timeout is a verdict only after the same input exceeds 120 s again when re-run alone on a fresh worker"]
NSHARDS = 16
PER_INPUT_TIMEOUT = 15.0
ALONE_TIMEOUT = 120.0      # generous: the first panic of a fresh worker symbolises its backtrace (slow under load)
NEEDS_THOROUGH = ["fast"]


def EXPECTED_KNOWN(tier):
    return ["F4a", "F4b", "F4c", "F4d", "F4e", "F16", "F21", "F38", "F42"]


def shards(tier, seed):
    n = 24000 if tier == "quick" else 1000000
    return [{"idx": i, "n": NSHARDS, "seed": seed, "count": n // NSHARDS, "tier": tier} for i in range(NSHARDS)]


def msg_class(msg):
    m = msg.split("\n")[0]
    um = re.match(r"called `(Result|Option)::(unwrap|expect)\w*\(\)` on an? `(\w+)` value:?\s*(\w+)?", m)
    if um:
        return f"{um.group(1)}::{um.group(2)}() on {um.group(3)}" + (f": {um.group(4)}" if um.group(4) else "")
    m = re.sub(r"`[^`]*`", "`…`", m)
    m = re.sub(r"\d+", "N", m)
    m = re.sub(r"'[^']*'", "'…'", m)
    return m[:120]


def signature(panic):
    frame = panic.get('frame') or panic.get('loc', '').split('/')[-1]
    return f"{msg_class(panic.get('msg', ''))} @ {re.sub(r'[0-9]+', 'N', frame)}"


def classify_panic(sh, known, case, panic, where):
    if "allocate memory" in (panic.get("msg") or "") and resource_bomb(case.get("code", "")):
        # an input asking for gigabytes (`"{1:>9999999999}"`) under the worker's address-space limit
        sh.count("allocation_failures_of_resource_demanding_inputs_not_judged")
        return
    sig = signature(panic)
    sh.count_in("panic_signatures", sig)
    for fid, e in known.items():
        s = e.get("signature", {})
        if s.get("panic") and s["panic"] == sig:
            sh.known_hit(fid, dict(case, signature=sig))
            return
    sh.violation(dict(case, signature=sig), f"panic while {where}: {sig} — input {case['code'][:300]!r}")


def observe(sh, known, case, r):
    """judge one eval response"""
    sh.judged()
    st = r.get("status")
    if st == "panic":
        classify_panic(sh, known, case, r["panic"], "rendering the result" if r.get("panic_in") == "render" else
                       ("formatting the error message" if r.get("panic_in") == "error_display" else "interpreting"))
        return
    if st == "err":
        if r.get("msg_panic"):
            classify_panic(sh, known, case, r["msg_panic"], "formatting the error message")
        d = r.get("diag") or {}
        if "panic" in d and not r.get("msg_panic"):
            classify_panic(sh, known, case, d["panic"], "rendering the diagnostic")
        sh.count_in("outcomes", f"{r.get('stage')}")
        sh.count_in("error_kinds", f"{r.get('stage')}/{r.get('kind')}")
        if not (r.get("stage") == "resolver" and "Tokenizer" in str(r.get("kind"))):
            sh.nontrivial(case["code"])
    elif st == "ok":
        sh.count_in("outcomes", "ok")
        sh.nontrivial(case["code"])
    for op, n in (r.get("opcodes") or {}).items():
        sh.count_in("opcodes_seen", op, n)
        if op.startswith("INVALID"):
            sh.violation(case, f"invalid opcode byte fetched: {op}")


def run_one(w, code, base="p", timeout=PER_INPUT_TIMEOUT):
    sid = w.fork(base)
    try:
        return w.eval(sid, code, stmts=False, html=False, value=False, timeout=timeout)
    finally:
        try:
            w.drop(sid)
        except Exception:
            pass


def run_inputs(sh, w, known, codes, base="p", libcall=None):
    """run a list of inputs, each in a fresh fork; isolate crashes and hangs"""
    for code in codes:
        case = {"code": code, "base": base}
        if libcall:
            case["libcall"] = libcall
        try:
            r = run_one(w, code, base)
            observe(sh, known, case, r)
        except WorkerDied as e:
            w.restart()
            prepare_bases(w)
            # confirm alone on the fresh worker
            try:
                r = run_one(w, code, base, timeout=ALONE_TIMEOUT)
                observe(sh, known, case, r)
                sh.count("crash_not_reproduced")
            except WorkerDied as e2:
                w.restart()
                prepare_bases(w)
                crash(sh, known, case, e2.returncode)
            except WorkerTimeout:
                w.restart()
                prepare_bases(w)
                hang(sh, known, case)
        except WorkerTimeout:
            w.restart()
            prepare_bases(w)
            if case.get("libcall") == "count_driven" and BIG_NUM.search(code):
                # no point in confirming for two more minutes: the caller asked for an unbounded amount of work
                sh.count("timeouts_of_count_driven_library_calls_with_huge_counts_not_judged")
                continue
            try:
                t0 = time.time()
                r = run_one(w, code, base, timeout=ALONE_TIMEOUT)
                observe(sh, known, case, r)
                sh.count("slow_but_finished_alone")
                sh.count_in("slow_inputs", code[:80])
            except WorkerTimeout:
                w.restart()
                prepare_bases(w)
                hang(sh, known, case)
            except WorkerDied as e2:
                w.restart()
                prepare_bases(w)
                crash(sh, known, case, e2.returncode)


def crash(sh, known, case, rc):
    if case.get("libcall") == "count_driven" and BIG_NUM.search(case["code"]):
        sh.count("crashes_of_count_driven_library_calls_with_huge_counts_not_judged")
        return
    if user_recursion(case["code"]) and not case.get("template"):
        sh.count("crashes_with_user_defined_recursion_not_judged")
        return
    if resource_bomb(case["code"]) and not case.get("template"):
        sh.count("crashes_of_resource_demanding_inputs_not_judged")
        return
    sh.judged()
    sh.count_in("crashes", f"{case.get('template') or case['code'][:60]}@{case.get('size', len(case['code']))} rc={rc}")
    for fid, e in known.items():
        s = e.get("signature", {})
        if case.get("template") in (s.get("crash_templates") or []) and case.get("size", 0) >= s.get("min_size", 0):
            sh.known_hit(fid, dict(case, code=case["code"][:200] + "…", returncode=rc))
            return
    sh.violation(dict(case, code=case["code"][:2000]), f"interpreter process died (return code {rc}) on input "
                                                        f"{case['code'][:200]!r} (length {len(case['code'])})")


RECURSIVE_FN = re.compile(r"fn\s+([A-Za-z_][A-Za-z0-9_]*)\s*(?:<[^>]*>)?\s*\(")


def user_recursion(code):
    """does the input define a function that calls itself? (unbounded recursion written by the user
    is outside the property: 'inputs without unbounded recursion finish promptly')"""
    for m in RECURSIVE_FN.finditer(code):
        name = m.group(1)
        rest = code[m.end():]
        if re.search(r"\b" + re.escape(name) + r"\s*\(", rest.split("\nfn ")[0]):
            return True
    return False


BOMB_FN = re.compile(r"\b(range|linspace|str_rep|str_repeat|lpad|rpad|replicate|random_sample|foldl|map|sum|fibonacci|lucas|catalan|"
                     r"binom|factorial|falling_factorial|rand_binom|rand_poisson|rand_geom|take|drop|element_at)\s*\(")
BIG_NUM = re.compile(r"\d{4,}|\de\+?[4-9]\b|\de\+?\d{2,}|\binf\b|\^\s*\d{2,}")


def resource_bomb(code):
    """an input that legitimately asks for millions of list elements / characters"""
    if re.search(r"\{[^}]*:[^}]*\d{6,}", code):      # format specifier asking for millions of characters
        return True
    return bool(BOMB_FN.search(code) and BIG_NUM.search(code))


def hang(sh, known, case):
    if case.get("libcall") == "count_driven" and BIG_NUM.search(case["code"]):
        # `range(0, inf)`, `fibonacci(1e308)`, `str_repeat(2^53, "a")`: the caller asks for an unbounded amount of work
        sh.count("timeouts_of_count_driven_library_calls_with_huge_counts_not_judged")
        return
    if user_recursion(case["code"]):
        sh.count("timeouts_with_user_defined_recursion_not_judged")
        return
    if resource_bomb(case["code"]):
        sh.count("timeouts_of_resource_demanding_inputs_not_judged")
        return
    sh.judged()
    sh.count_in("hangs", case["code"][:80])
    sh.violation(dict(case, code=case["code"][:2000]), f"interpreter did not finish within 120 s when run alone (after exceeding 15 s in the workload) on "
                                                        f"input {case['code'][:200]!r} (length {len(case['code'])})")



# ---- stratum 4: every library function called with hostile arguments ---------------------------------------

NUMS = ["0", "-0", "1", "-1", "2", "3", "10", "0.5", "-2.5", "1000", "20000", "250000", "1e7", "-1e7", "1e12", "inf", "-inf", "NaN", "1e308", "-1e308", "5e-324", "2^53",
        "1e30", "1e-30", "-7", "255", "1/3"]
DIM_UNITS = {"Length": ["m", "km", "ly", "angstrom", "inch", "mm"], "Time": ["s", "ms", "min", "hours", "days", "months", "years", "centuries"],
             "Mass": ["kg", "g", "lb", "tonne"], "Temperature": ["K", "mK"], "Angle": ["rad", "deg", "turn"], "Velocity": ["m/s", "km/h"],
             "Money": ["$", "€"], "Frequency": ["Hz", "GHz"], "Energy": ["J", "eV", "kWh"], "Area": ["m^2", "hectare"], "Volume": ["L", "m^3"],
             "UnixTime": ["unix_s", "unix_ms"], "Current": ["A", "mA"]}
STRS = ['""', '"a"', '"abc"', '"ä€x"', '"a,b,,c"', '"  "', '"{{}}"', '"0"', '"-1e400"', '"2024-02-30"', '"%"', '"UTC"',
        '"Europe/Berlin"', '"%Y-%m-%d %H:%M:%S"', '"%Q%"', '"H"', '"1 m"', '"' + "x" * 300 + '"', '"\\n\\t"', '"Ωµ"']
DATES = ["now()", 'datetime("0001-01-02 00:00:00 UTC")', 'datetime("9999-12-30 00:00:00 UTC")', 'datetime("1970-01-01T00:00:00Z")',
         'datetime("2024-03-31 02:30:00 Europe/Berlin")', 'datetime("-009000-01-01T00:00:00Z")']
FN1 = ["sqrt", "abs", "sqr", "floor", "is_nan", "str_length", "vf_hg", "id", "ln", "factorial", "head"]
FN2 = ["vf_first", "mod", "max2", "hypot2", "str_append", "cons"]
COUNT_DRIVEN = {"range", "linspace", "str_repeat", "fibonacci", "lucas", "catalan", "binom", "factorial", "falling_factorial",
                "rand_binom", "rand_poisson", "rand_geom", "rand_int", "take", "drop", "element_at", "base", "bin", "oct", "hex", "dec",
                "line_plot", "bar_chart", "show"}
SKIP_FUNCTIONS = {"show", "args", "inspect"}


def split_top(text, sep=","):
    out, depth, cur = [], 0, ""
    for ch in text:
        if ch in "([<":
            depth += 1
        elif ch in ")]>":
            depth -= 1
        if ch == sep and depth == 0:
            out.append(cur)
            cur = ""
        else:
            cur += ch
    if cur.strip():
        out.append(cur)
    return [x.strip() for x in out]


def param_types(sig):
    """parameter type texts of `fn name<...>(a: T, b: U) -> R`"""
    m = re.match(r"fn\s+\S+?(<[^(]*>)?\(", sig)
    if not m:
        return None
    i = m.end()
    depth, j = 1, i
    while j < len(sig) and depth:
        if sig[j] in "([":
            depth += 1
        elif sig[j] in ")]":
            depth -= 1
        j += 1
    inner = sig[i:j - 1]
    if not inner.strip():
        return []
    return [p.split(":", 1)[1].strip() if ":" in p else "Scalar" for p in split_top(inner)]


def hostile_value(rng, ty, depth=0):
    ty = ty.strip()
    if ty.startswith("List<"):
        inner = ty[5:-1]
        n = rng.choice([0, 0, 1, 2, 3, 5])
        return "[" + ", ".join(hostile_value(rng, inner, depth + 1) for _ in range(n)) + "]"
    if ty.startswith("Fn["):
        args = ty[ty.index("(") + 1:ty.index(")")]
        return rng.choice(FN2 if "," in args else FN1)
    if ty == "String":
        return rng.choice(STRS)
    if ty == "Bool":
        return rng.choice(["true", "false"])
    if ty == "DateTime":
        return rng.choice(DATES)
    x = rng.choice(NUMS)
    for d, us in DIM_UNITS.items():
        if d in ty:
            u = rng.choice(us)
            return f"({x}) {u}" if "/" in x or "^" in x else f"{x} {u}"
    if ty != "Scalar" and rng.random() < 0.4:
        return f"({x}) m" if "/" in x or "^" in x else f"{x} m"      # generic dimension parameter
    return x


def run_library(sh, w, known, spec):
    names = w.call({"op": "names", "sid": "p"})
    fns = sorted(names["functions"])
    rng = rng_for(spec["seed"], "C08lib", spec["idx"])
    per_fn = 10 if spec["tier"] == "quick" else 120
    for i, (name, sig) in enumerate(fns):
        if i % spec["n"] != spec["idx"] or name in SKIP_FUNCTIONS:
            continue
        tys = param_types(sig)
        if tys is None:
            continue
        sh.count("library_functions_called")
        for _ in range(per_fn if tys else 1):
            args = [hostile_value(rng, t) for t in tys]
            code = f"{name}({', '.join(args)})"
            if rng.random() < 0.15 and tys:
                code = f"{args[-1]} |> {name}" + (f"({', '.join(args[:-1])})" if len(args) > 1 else "")
            case_kind = "count_driven" if name in COUNT_DRIVEN else None
            run_inputs(sh, w, known, [code], "hist", libcall=case_kind)
            sh.count("library_calls")

HISTORY = """
let vf_h1 = 3 km
fn vf_hf(x: Length) -> Length = 2 x
unit vf_hu = 12 m
struct VfH { a: Length, b: Scalar }
let vf_hs = VfH { a: 1 m, b: 2 }
dimension VfHD = Length * Time
let vf_hl = [1 m, 2 m, 3 m]
fn vf_hg<D: Dim>(x: D) -> D = x
fn vf_first(a, b) = a
fn max2(a, b) = if a > b then a else b
"""


def prepare_bases(w):
    w.fork("p", "hist")
    r = w.eval("hist", HISTORY, stmts=False)
    if not r.get("ok"):
        raise RuntimeError(f"history session failed: {r.get('msg')}")
    w.fork("p", "kc")
    r = w.eval("kc", KC_PRELUDE, stmts=False)
    if not r.get("ok"):
        raise RuntimeError(f"kind-confusion base session failed: {r.get('msg')}")


def run_shard(sh, spec):
    w = get_worker()
    prepare_bases(w)
    known = known_for("C08")
    corpus = Corpus.load()
    rng = rng_for(spec["seed"], "C08", spec["idx"])
    idx, n = spec["idx"], spec["n"]
    # 1. fixed strata, split over shards: extreme literals and size-class templates
    fixed = [{"code": e, "kind": "extreme"} for e in EXTREME_LITERALS]
    for t in TEMPLATES:
        for size in (1, 10, 100, 1000):
            fixed.append({"code": t(size), "kind": "template", "template": t.__name__, "size": size})
    # long-session / table-limit stress inputs (u16 limits of the VM)
    fixed.append({"code": "3" + "!" * 65536, "kind": "stress", "stress": "factorial order 65536 (u16 wrap)"})
    fixed.append({"code": "\n".join("2*3*4*5*6*7*8*9" for _ in range(8300)), "kind": "stress",
                  "stress": "more than 65535 constants in one session"})
    fixed.append({"code": "let vf_a = 1\n" + ("vf_a" + "+vf_a" * 7 + "\n") * 2500 + "if vf_a == 1 then 10 else 20",
                  "kind": "stress", "stress": "conditional after more than 64 KiB of top-level bytecode"})
    for i, c in enumerate(fixed):
        if i % n != idx:
            continue
        sh.count_in("fixed_strata", c["kind"])
        run_inputs(sh, w, known, [c["code"]], "p")
    # 1b. kind confusion: every construct with operands of every kind of value (exhaustive table, split over shards)
    for i, (construct, kinds, code) in enumerate(kc_inputs()):
        if i % n != idx:
            continue
        body = code[len(KC_PRELUDE):]
        sh.count("kind_confusion_inputs")
        if "," not in kinds:
            sh.count_in("kind_confusion_operand_kinds(one-hole constructs)", kinds)
        run_inputs(sh, w, known, [body], "kc", libcall="count_driven" if (BOMB_FN.search(body) and BIG_NUM.search(body)) else None)
    # 2. big size classes: documented finding when they overflow the stack
    big = []
    for t in TEMPLATES:
        for size in ((20000,) if spec["tier"] == "quick" else (20000, 100000)):
            big.append((t, size))
    for i, (t, size) in enumerate(big):
        if i % n != idx:
            continue
        code = t(size)
        case = {"code": code, "base": "p", "template": t.__name__, "size": size}
        try:
            r = run_one(w, code, "p", timeout=60)
            observe(sh, known, dict(case, code=code[:300] + "…"), r)
            sh.count_in("big_templates", "finished")
        except WorkerDied as e:
            w.restart()
            prepare_bases(w)
            crash(sh, known, case, e.returncode)
            sh.count_in("big_templates", "crashed")
        except WorkerTimeout:
            w.restart()
            prepare_bases(w)
            sh.count_in("big_templates", "slow(>60s)")
            sh.inconclusive_case("big template slower than 60 s", {"template": t.__name__, "size": size}) if False else None
    # 4. every library function with hostile arguments
    run_library(sh, w, known, spec)
    # 3. random hostile inputs
    for k in range(spec["count"]):
        code = gen_input(rng, corpus)
        if len(code) > 20000:
            code = code[:20000]
        base = "hist" if rng.random() < 0.25 else "p"
        run_inputs(sh, w, known, [code], base)
        if len(sh.samples) < 4 and rng.random() < 0.001:
            sh.sample({"input": code[:300]})
    if not sh.samples:
        sh.sample({"input": gen_input(rng, corpus)[:300]})


def replay(sh, case):
    w = get_worker()
    prepare_bases(w)
    known = known_for("C08")
    run_inputs(sh, w, known, [case["code"]], case.get("base", "p"))


LEVEL_TEXT = ("Seeded hostile-input exploration with the checked build as the sanitizer: arithmetic overflow, debug assertions, "
              "slice/unwrap failures and invalid opcodes become panics that the server captures (message + first in-crate "
              "frame) around interpretation, result rendering, error-message formatting and diagnostic rendering; process "
              "death (stack overflow, abort) and confirmed timeouts are observed by the supervisor.")
LEVEL_NOTE = ("Trusted: catch_unwind/panic hook attribution, one request in flight per worker for crash attribution; a panic "
              "signature is (message class, first in-crate frame). Known findings match by exact signature only.")
TECHNIQUE = "runtime monitoring: checked-build (overflow/assertion) sanitizer + panic/crash/hang supervisor under hostile generated inputs"
