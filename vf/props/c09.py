"""C09 — compiled programs compute what their source means (reference evaluator)."""
import json
import os
import subprocess
import tempfile

from ..core import get_worker, rng_for, bits_to_float, float_to_bits, WorkerDied, WorkerTimeout, VERIF, TARGET
from .. import refeval as R

LEVEL = "exploration"
RULE = ("seeded random well-typed programs (3-14 statements) over numbers, booleans, strings with interpolation, three "
        "struct types (one nested), lists and function values: top-level variables with shadowing, functions with 1-3 "
        "parameters (some named like a global), where-clauses (some shadowing a parameter), bounded recursion, redefinition "
        "of functions that earlier functions call or that are stored in variables (a quarter of the programs are pure "
        "name-resolution programs: few global names re-bound repeatedly between function definitions that read them), calls, calls through function-valued "
        "expressions, `|>` with and without extra arguments, conditionals, boolean logic, comparisons, struct literals with "
        "permuted field order and (nested) field access, list functions (map/filter/foldl/concat/take/drop/sort/...). Each "
        "program is run by the real interpreter — as one input or statement by statement — and by the reference evaluator "
        "(vf/refeval.py); final value (bit for bit), print output and success/failure must agree. Hook invariants: opcode "
        "validity at every fetch, VM quiescence after the run. distinct = program text; non-trivial = contains a function "
        "definition or a conditional")
EXHAUSTIVE = {"quick": False, "thorough": False}
FLOOR = {"quick": 1500, "thorough": 30000}
ASSUMPTIONS = ["the reference evaluator implements the evaluation rules listed at the top of vf/refeval.py",
               "programs whose output formatting leaves the modelled subset (non-integers beyond 6 digits, |x| >= 1e15, "
               "-0, structs inside strings) are discarded, not judged"]
NSHARDS = 16
NEEDS_THOROUGH = ["miri", "fast"]
MIRI_PROGRAMS_PER_SHARD = 3


def shards(tier, seed):
    n = 3200 if tier == "quick" else 64000
    out = [{"kind": "native", "idx": i, "n": NSHARDS, "seed": seed, "count": n // NSHARDS} for i in range(NSHARDS)]
    if tier == "thorough":
        # the same monitor over the plain release build (what users run: no overflow checks, no debug assertions)
        out += [{"kind": "native", "profile": "fast", "idx": 100 + i, "n": NSHARDS, "seed": seed, "count": n // NSHARDS // 4}
                for i in range(NSHARDS)]
        # supplementary: the same generator, a few programs per process under Miri (UB / invalid enum values in the
        # opcode decode, struct field swap_remove, Arc handling); the mini prelude stands in for the real one
        out += [{"kind": "miri", "idx": i, "seed": seed, "count": MIRI_PROGRAMS_PER_SHARD} for i in range(NSHARDS)]
    return out


def to_json_value(v):
    """reference value in the server's structured-value vocabulary (only the compared keys)"""
    if v is None:
        return None
    if isinstance(v, bool):
        return {"t": "b", "v": v}
    if isinstance(v, float):
        return {"t": "q", "bits": "nan" if v != v else ("0000000000000000" if v == 0 else float_to_bits(v)), "unit": []}
    if isinstance(v, str):
        return {"t": "s", "v": v}
    if isinstance(v, list):
        return {"t": "list", "items": [to_json_value(x) for x in v]}
    if isinstance(v, tuple) and v[0] == "struct":
        return {"t": "struct", "name": v[1], "fields": [[f, to_json_value(x)] for f, x in v[2]]}
    if isinstance(v, R.Closure):
        return {"t": "fn", "name": v.name}
    if isinstance(v, R.Builtin):
        return {"t": "fn", "name": v.name}
    raise ValueError(v)


def norm_value(j):
    if j is None:
        return None
    t = j.get("t")
    if t == "q":
        b = j["v"]["b"]
        x = bits_to_float(b)
        # -0 and +0 are the same number to every observer (display, ==, division): numbat's zero short-cuts
        # (`0 - x` is computed as `-x`) produce -0 where IEEE subtraction gives +0
        return {"t": "q", "bits": "nan" if x != x else ("0000000000000000" if x == 0 else b), "unit": [u.get("name") for u in j["unit"]]}
    if t == "b":
        return {"t": "b", "v": j["v"]}
    if t == "s":
        return {"t": "s", "v": j["v"]}
    if t == "list":
        return {"t": "list", "items": [norm_value(x) for x in j["items"]]}
    if t == "struct":
        return {"t": "struct", "name": j["name"], "fields": [[f, norm_value(x)] for f, x in j["fields"]]}
    if t == "fn":
        return {"t": "fn", "name": j["name"]}
    return j


def nan_norm(j):
    if isinstance(j, dict) and j.get("t") == "q":
        x = bits_to_float(j["bits"]) if j["bits"] != "nan" else float("nan")
        if x != x:
            return dict(j, bits="nan")
    if isinstance(j, dict):
        return {k: nan_norm(v) for k, v in j.items()}
    if isinstance(j, list):
        return [nan_norm(v) for v in j]
    return j


def approx_equal(a, b, tol=1e-9):
    if isinstance(a, dict) and isinstance(b, dict) and a.get("t") == "q" and b.get("t") == "q":
        if a["bits"] == b["bits"]:
            return a.get("unit") == b.get("unit")
        if "nan" in (a["bits"], b["bits"]):
            return False
        x, y = bits_to_float(a["bits"]), bits_to_float(b["bits"])
        return a.get("unit") == b.get("unit") and abs(x - y) <= tol * max(abs(x), abs(y))
    if isinstance(a, dict) and isinstance(b, dict):
        return a.keys() == b.keys() and all(approx_equal(a[k], b[k], tol) for k in a)
    if isinstance(a, list) and isinstance(b, list):
        return len(a) == len(b) and all(approx_equal(x, y, tol) for x, y in zip(a, b))
    return a == b


def run_program(sh, w, base, rng, k, kn=0):
    if rng.random() < 0.25:
        stmts, g = R.gen_scope_program(rng, f"t{k}x")
        sh.count("scoping_programs")
    else:
        stmts, g = R.gen_program(rng, f"t{k}x", rng.randint(3, 14))
    texts = [R.render_stmt(s) for s in stmts]
    m = R.Machine()
    expect_error = None
    try:
        want = m.run(stmts)
    except R.Unprintable:
        sh.count("discarded: formatting outside the modelled subset / resource bound")
        return
    except R.EvalError as e:
        want, expect_error = None, str(e)
    mode = "batch" if rng.random() < 0.6 else "incremental"
    case = {"program": texts, "mode": mode}
    sid = w.fork(base)
    try:
        prints, value, failed, digest = [], None, None, None
        inputs = ["\n".join(texts)] if mode == "batch" else texts
        for inp in inputs:
            r = w.eval(sid, inp, stmts=False, render=False)
            if r.get("status") == "panic":
                msg = (r.get("panic") or {}).get("msg", "")
                if "verif: invalid opcode" in msg:
                    sh.violation(dict(case, signature="invalid opcode"), f"the VM fetched an invalid opcode byte: {msg}")
                else:
                    sh.count_in("panics_left_to_C08", msg[:90] + " @ " + str((r.get("panic") or {}).get("fn"))[:60])
                return
            for name, n in (r.get("opcodes") or {}).items():
                sh.count_in("opcodes_executed", name, n)
            prints += r.get("prints") or []
            if not r.get("ok"):
                failed = r
                break
            if r.get("value") is not None:
                value = r["value"]      # the value of the last expression statement so far
            digest = r.get("digest")
        sh.judged()
        if failed is not None:
            if expect_error and failed.get("stage") == "runtime":
                sh.count("both fail at run time")
                return
            if failed.get("stage") in ("type", "name", "resolver"):
                # generator imprecision (the program is not well-typed for numbat): not a C09 case
                sh.count_in("rejected statically (not judged)", f"{failed.get('stage')}/{failed.get('kind')}")
                if len(sh.counters.get("rejected_samples", [])) < 0:
                    pass
                return
            sh.violation(dict(case, signature="unexpected run-time failure"),
                         f"the program fails at run time ({failed.get('kind')}: {failed.get('msg')}) but its source evaluates to "
                         f"{json.dumps(to_json_value(want))[:200]}\n  " + "\n  ".join(texts)[:1500])
            return
        if expect_error:
            sh.violation(dict(case, signature="missing run-time failure"),
                         f"the source fails at run time ({expect_error}) but the interpreter returns {json.dumps(norm_value(value))[:200]}"
                         "\n  " + "\n  ".join(texts)[:1500])
            return
        problems = []
        got, exp = nan_norm(norm_value(value)), nan_norm(to_json_value(want))
        if got != exp:
            problems.append(f"final value {json.dumps(got)[:300]} but the source means {json.dumps(exp)[:300]}")
        if prints != m.prints:
            problems.append(f"print output {prints[:6]} but the source means {m.prints[:6]}")
        if digest and (digest.get("stack") != digest.get("nglobals") or digest.get("frames") != 1):
            problems.append(f"VM not quiescent after the run: {digest}")
        if problems:
            sh.violation(dict(case, expected={"value": exp, "prints": m.prints}, signature=problems[0][:30]),
                         "; ".join(problems) + "\n  " + "\n  ".join(texts)[:2000])
        if any(s[0] == "fn" for s in stmts) or "if " in "".join(texts):
            sh.nontrivial("\n".join(texts))
        if kn % 400 == 0:
            sh.sample({"program": texts[:8], "value": exp, "prints": m.prints[:4], "mode": mode})
    finally:
        try:
            w.drop(sid)
        except Exception:
            pass


def make_base(w):
    base = "c09base"
    w.call({"op": "drop", "sid": base})
    w.fork("p", sid=base)
    r = w.eval(base, R.STRUCT_DEFS, stmts=False)
    if not r.get("ok"):
        raise RuntimeError(f"struct definitions rejected: {r.get('msg')}")
    return base


def run_miri(sh, spec):
    rng = rng_for(spec["seed"], "C09miri", spec["idx"])
    mini = open(os.path.join(VERIF, "vf", "mini_prelude.nbt"), encoding="utf-8").read()
    env = dict(os.environ, CARGO_NET_OFFLINE="true", MIRIFLAGS="-Zmiri-disable-isolation")
    env.pop("RUSTFLAGS", None)
    done = 0
    attempts = 0
    while done < spec["count"] and attempts < 40:
        attempts += 1
        if rng.random() < 0.4:
            stmts, g = R.gen_scope_program(rng, f"m{spec['idx']}_{attempts}x")
        else:
            stmts, g = R.gen_program(rng, f"m{spec['idx']}_{attempts}x", rng.randint(3, 8))
        m = R.Machine()
        try:
            want = m.run(stmts)
        except (R.Unprintable, R.EvalError):
            continue
        if m.steps > 3000:
            continue          # keep the interpreted run short
        texts = [R.render_stmt(s) for s in stmts]
        with tempfile.NamedTemporaryFile("w", suffix=".nbt", dir=TARGET, delete=False, encoding="utf-8") as f:
            f.write(mini + "\n" + R.STRUCT_DEFS + "\n" + "\n".join(texts) + "\n")
            path = f.name
        cmd = ["cargo", "+nightly", "miri", "run", "--offline", "--target-dir", os.path.join(TARGET, "miri"), "--", "runprog", path]
        try:
            p = subprocess.run(cmd, cwd=os.path.join(VERIF, "server"), env=env, capture_output=True, text=True, timeout=3000)
        except subprocess.TimeoutExpired:
            sh.inconclusive_case("miri run exceeded the harness watchdog (not a verdict)")
            continue
        finally:
            try:
                os.unlink(path)
            except OSError:
                pass
        case = {"program": texts, "mode": "miri"}
        if "Undefined Behavior" in p.stderr:
            sh.violation(dict(case, signature="miri UB"), "Miri reports undefined behaviour while interpreting:\n  "
                         + "\n  ".join(texts)[:1500] + "\n" + "\n".join(p.stderr.splitlines()[-30:]))
            done += 1
            continue
        line = next((l for l in p.stdout.splitlines() if l.startswith("{")), None)
        if line is None:
            sh.inconclusive_case(f"miri run produced no result (rc={p.returncode}): {p.stderr[-400:]}")
            continue
        r = json.loads(line)
        if not r.get("ok"):
            sh.count_in("miri: rejected or failed (mini prelude differs from the real one; not judged)", (r.get("msg") or "")[:60])
            continue
        done += 1
        sh.judged()
        sh.count("miri_programs_judged")
        for name, n in r.get("opcodes") or []:
            sh.count_in("opcodes_executed_under_miri", name, n)
        got, exp = nan_norm(norm_value(r.get("value"))), nan_norm(to_json_value(want))
        # Miri deliberately perturbs the last bits of non-exact float intrinsics (powf for `sqr`, ...): compare numbers
        # with a relative tolerance here, structure and everything else exactly
        if not approx_equal(got, exp) or (r.get("prints") or []) != m.prints:
            sh.violation(dict(case, expected={"value": exp, "prints": m.prints}, signature="miri value"),
                         f"(under Miri) value {json.dumps(got)[:200]} / prints {r.get('prints')} but the source means "
                         f"{json.dumps(exp)[:200]} / {m.prints}\n  " + "\n  ".join(texts)[:1500])
        sh.nontrivial("miri", "\n".join(texts))


def run_shard(sh, spec):
    if spec.get("kind") == "miri":
        return run_miri(sh, spec)
    w = get_worker(profile=spec.get("profile", "checked"))
    sh.count_in("programs_by_build_profile", spec.get("profile", "checked"), 0)
    base = make_base(w)
    rng = rng_for(spec["seed"], "C09", spec["idx"])
    for k in range(spec["count"]):
        sh.count_in("programs_by_build_profile", spec.get("profile", "checked"))
        try:
            run_program(sh, w, base, rng, f"{spec['idx']}_{k}", k)
        except (WorkerDied, WorkerTimeout) as e:
            sh.count("worker_died_left_to_C08")
            w.restart()
            base = make_base(w)


def replay(sh, case):
    w = get_worker()
    base = make_base(w)
    sid = w.fork(base)
    inputs = ["\n".join(case["program"])] if case.get("mode") == "batch" else case["program"]
    prints, value = [], None
    for inp in inputs:
        r = w.eval(sid, inp, stmts=False)
        prints += r.get("prints") or []
        if not r.get("ok"):
            print("fails:", r.get("stage"), r.get("kind"), r.get("msg"))
            break
        value = r.get("value") if r.get("value") is not None else (None if case.get("mode") == "batch" else value)
    print("\n".join(case["program"]))
    print("numbat:   ", json.dumps(nan_norm(norm_value(value)))[:500], prints)
    print("reference:", json.dumps(case.get("expected"))[:500])
    sh.judged()
    exp = case.get("expected") or {}
    if nan_norm(norm_value(value)) != exp.get("value") or prints != exp.get("prints"):
        sh.violation(case, "interpreter result differs from the reference evaluation")


LEVEL_TEXT = ("Seeded random exploration: generated well-typed programs are executed by the real interpreter (checked build, "
              "opcode-validity hook, quiescence digest) and by an independent big-step reference evaluator working on the "
              "program's syntax tree; a monitor compares final value (bit for bit), print output and run-time failure.")
LEVEL_NOTE = ("Trusted: the reference evaluator and the restriction of numeric formatting to integers/short decimals; library "
              "list functions are implemented natively in the evaluator while numbat runs its own numbat-language versions.")
TECHNIQUE = "runtime monitoring: reference-model (big-step evaluator) monitor over generated programs + VM invariant hooks"
