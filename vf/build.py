"""Offline builds of the instrumented server / CLI from the current /repo tree."""
import hashlib
import os
import subprocess
import sys
import time

from .core import VERIF, REPO, TARGET

ENV = dict(os.environ, CARGO_NET_OFFLINE="true")
ENV.pop("RUSTFLAGS", None)


def _modules_hash():
    h = hashlib.blake2b(digest_size=16)
    root = os.path.join(REPO, "numbat", "modules")
    for d, dirs, files in sorted(os.walk(root)):
        dirs.sort()
        for fn in sorted(files):
            p = os.path.join(d, fn)
            h.update(os.path.relpath(p, root).encode())
            with open(p, "rb") as f:
                h.update(f.read())
    return h.hexdigest()


def _run(cmd, cwd, what, timeout=3600):
    t0 = time.time()
    r = subprocess.run(cmd, cwd=cwd, env=ENV, stdout=subprocess.PIPE, stderr=subprocess.STDOUT,
                       text=True, timeout=timeout)
    if r.returncode != 0:
        tail = "\n".join(r.stdout.splitlines()[-40:])
        print(f"BUILD FAILED ({what}):\n{tail}")
        return False
    dt = time.time() - t0
    if dt > 5:
        print(f"[build] {what}: {dt:.0f}s")
    return True


def _paths_override():
    if os.path.realpath(REPO) != "/repo":
        return ["--config", f'paths=["{os.path.join(REPO, "numbat")}"]']
    return []


def build_server(profile="checked"):
    """cargo build of /verif/server against REPO/numbat with feature `verif`."""
    os.makedirs(TARGET, exist_ok=True)
    stamp = os.path.join(TARGET, f".modules_hash_{profile}")
    mh = _modules_hash()
    old = open(stamp).read().strip() if os.path.exists(stamp) else None
    server = os.path.join(VERIF, "server")
    if old is not None and old != mh:
        # standard-library modules are embedded at compile time: force numbat to rebuild
        subprocess.run(["cargo", "clean", "--offline", "-p", "numbat", "--profile", profile,
                        "--target-dir", TARGET] + _paths_override(),
                       cwd=server, env=ENV, stdout=subprocess.DEVNULL, stderr=subprocess.DEVNULL)
    ok = _run(["cargo", "build", "--offline", "--profile", profile, "--target-dir", TARGET]
              + _paths_override(), server, f"nbserve[{profile}]")
    if ok:
        with open(stamp, "w") as f:
            f.write(mh)
    return ok


def cli_binary():
    return os.path.join(TARGET, "cli", "debug", "numbat")


def build_cli():
    """the real `numbat` binary, from the REPO workspace (hooks off)"""
    return _run(["cargo", "build", "--offline", "-p", "numbat-cli", "--target-dir",
                 os.path.join(TARGET, "cli")], REPO, "numbat-cli")


def build_miri():
    """nbserve for the Miri interpreter (nightly toolchain); the tiny run only forces the build"""
    env = dict(ENV, MIRIFLAGS="-Zmiri-disable-isolation")
    t0 = time.time()
    r = subprocess.run(["cargo", "+nightly", "miri", "run", "--offline", "--target-dir", os.path.join(TARGET, "miri")]
                       + _paths_override() + ["--", "listcheck", "1", "1"],
                       cwd=os.path.join(VERIF, "server"), env=env, stdout=subprocess.PIPE, stderr=subprocess.STDOUT,
                       text=True, timeout=3600)
    if r.returncode != 0:
        print("BUILD FAILED (miri):\n" + "\n".join(r.stdout.splitlines()[-40:]))
        return False
    if time.time() - t0 > 5:
        print(f"[build] nbserve[miri]: {time.time() - t0:.0f}s")
    return True


def build(needs):
    ok = True
    for n in needs:
        if n == "server":
            ok = ok and build_server("checked")
        elif n == "fast":
            ok = ok and build_server("fast")
        elif n == "cli":
            ok = ok and build_cli()
        elif n == "miri":
            ok = ok and build_miri()
    return ok
