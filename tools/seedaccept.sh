#!/bin/bash
# usage: tools/seedaccept.sh <Cxx> [name]   — my own confirmation of a sub-agent's seeded change, in its scratch worktree:
#   patch.diff == worktree diff; applies to a clean checkout; full test suite passes with it;
#   demo fails with it and passes without it.  Copies SEED_OUT to /verif/seeded/<name> when all of that holds.
ID=$1; NAME=${2:-$1}
WT=/tmp/seed/$NAME
OUT=$WT/SEED_OUT
LOG=/tmp/seed/$NAME.accept.log
exec > >(tee $LOG) 2>&1
cd $WT || exit 2
[ -f $OUT/patch.diff ] || { echo "no patch.diff"; exit 2; }
git diff > /tmp/seed/$NAME.now.diff
if ! diff -q <(grep -v '^index ' /tmp/seed/$NAME.now.diff) <(grep -v '^index ' $OUT/patch.diff) >/dev/null; then echo "NOTE: worktree diff differs from patch.diff; resetting worktree to patch.diff"; git checkout -- . ; git apply $OUT/patch.diff || { echo "patch does not apply"; exit 2; }; fi
git diff --stat
echo "--- test suite with the change"
CARGO_NET_OFFLINE=true cargo test --workspace --no-fail-fast --offline -j 8 2>&1 | grep -E "^test result|FAILED|panicked" | tee /tmp/seed/$NAME.tests.txt
PASSED=$(grep -oE "[0-9]+ passed" /tmp/seed/$NAME.tests.txt | awk '{s+=$1} END {print s}')
FAILED=$(grep -oE "[0-9]+ failed" /tmp/seed/$NAME.tests.txt | awk '{s+=$1} END {print s}')
echo "passed=$PASSED failed=$FAILED"
echo "--- demo with the change (expect non-zero)"
bash $OUT/demo.sh $WT > /tmp/seed/$NAME.demo_with.txt 2>&1; RW=$?; tail -5 /tmp/seed/$NAME.demo_with.txt; echo "rc=$RW"
echo "--- demo without the change (expect 0)"
git apply -R $OUT/patch.diff
bash $OUT/demo.sh $WT > /tmp/seed/$NAME.demo_without.txt 2>&1; RO=$?; tail -5 /tmp/seed/$NAME.demo_without.txt; echo "rc=$RO"
git apply $OUT/patch.diff
if [ "$PASSED" = "243" ] && [ "$FAILED" = "0" ] && [ $RW -ne 0 ] && [ $RO -eq 0 ]; then
  mkdir -p /verif/seeded/$NAME && cp -r $OUT/* /verif/seeded/$NAME/ && echo "ACCEPTED $NAME (tests 243/0, demo with=$RW without=$RO)"
else
  echo "REJECTED $NAME (passed=$PASSED failed=$FAILED demo with=$RW without=$RO)"
fi
