"""C13 — standard-library unit names and prefixes resolve correctly and uniquely."""
import math

from ..core import get_worker, rng_for, qval, WorkerDied, WorkerTimeout
from ..unitdb import (load_unitdb, rel_close, nmul, exact, prefix_factor, METRIC_PREFIXES, BINARY_PREFIXES)
from ..gen import accepted_spellings, EvalSession, Spelling

LEVEL = "exploration"
RULE = ("the complete table (unit alias x prefix x short/long form) of the prelude, built by the harness from each "
        "unit's declared aliases/flags and the harness' own SI/IEC prefix table. Accepted cells: resolve(identifier) "
        "must be exactly (prefix, unit), `1 identifier` must evaluate to prefix factor x unit (structurally and by "
        "model value), and the displayed unit of `1 id -> id` must resolve/evaluate back to the same (prefix, unit). "
        "Rejected cells (prefix in a form the alias does not accept): resolve must not return that (prefix, unit). "
        "All accepted identifiers are checked pairwise for two different readings. A seeded sample of identifiers is "
        "re-defined (unit / variable) in a fork and must be refused. distinct = identifier string; non-trivial = cell "
        "carries a prefix")
EXHAUSTIVE = {"quick": True, "thorough": True}
FLOOR = {"quick": 3000, "thorough": 3000}
ASSUMPTIONS = ["prefix spellings and factors are the harness' own table (SI brochure 2022 + IEC 80000-13, plus `u` for micro)",
               "acceptance rule taken from the documentation: short prefixes with `short` aliases, long prefixes with `long` "
               "aliases, metric/binary as declared by @metric_prefixes/@binary_prefixes"]
NSHARDS = 16


def EXPECTED_KNOWN(tier):
    return ["F11"]


def shards(tier, seed):
    return [{"idx": i, "n": NSHARDS, "seed": seed, "tier": tier} for i in range(NSHARDS)]


def all_cells(db):
    """(accepted spellings, rejected spellings)"""
    acc, rej = [], []
    for name in sorted(db.units):
        U = db.units[name]
        acc_here = accepted_spellings(db, name)
        acc += acc_here
        acc_texts = {(s.text, s.prefix) for s in acc_here}
        for alias, short, long_ in U.aliases:
            for kind, table in (("m", METRIC_PREFIXES), ("b", BINARY_PREFIXES)):
                declared = U.metric if kind == "m" else U.binary
                for long_name, shorts, k in table:
                    cands = [(long_name + alias, "long", declared and long_)]
                    cands += [(s + alias, "short", declared and short) for s in shorts]
                    for text, form, ok in cands:
                        if not ok and (text, (kind, k)) not in acc_texts:
                            rej.append(Spelling(text, name, (kind, k), alias, form))
    return acc, rej


def single_token(text):
    """identifier rule of the documentation: starts with a letter/underscore-like character and continues with
    letters, digits, underscores; the prelude's special one-character names (°, ′, ″, %, ‰, currency signs) are
    identifiers on their own"""
    return all(ch.isalnum() or ch == "_" for ch in text) and not text[0].isdigit()


def is_f11(sp):
    """known finding F11: a prefix glued to an alias that consists of non-letter characters (`″`) is tokenized
    as two identifiers"""
    return sp.form != "plain" and not single_token(sp.alias)


def run_shard(sh, spec):
    w = get_worker()
    db = load_unitdb(w)
    acc, rej = all_cells(db)
    idx, n = spec["idx"], spec["n"]
    if idx == 0:
        sh.count("accepted_cells", len(acc))
        sh.count("rejected_cells", len(rej))
        # uniqueness: one identifier, two readings
        readings = {}
        for s in acc:
            readings.setdefault(s.text, set()).add((s.prefix, s.unit))
        for text, rs in readings.items():
            sh.judged()
            if len(rs) > 1:
                sh.violation({"identifier": text}, f"identifier {text!r} has {len(rs)} accepted readings: {sorted(rs)}")
        sh.count("distinct_identifiers", len(readings))

    mine_acc = [s for i, s in enumerate(acc) if i % n == idx]
    mine_rej = [s for i, s in enumerate(rej) if i % n == idx]

    # 1. resolution through the session's prefix parser
    for chunk_start in range(0, len(mine_acc), 500):
        chunk = mine_acc[chunk_start:chunk_start + 500]
        res = w.call({"op": "resolve", "sid": "p", "idents": [s.text for s in chunk]})["res"]
        for s, r in zip(chunk, res):
            sh.judged()
            if s.form != "plain":
                sh.nontrivial(s.text)
            case = {"identifier": s.text, "unit": s.unit, "prefix": list(s.prefix), "form": s.form}
            if r is None:
                sh.violation(case, f"{s.text!r} should read as {s.prefix} x {s.unit} but is not recognised as a unit")
            elif r["full"] != s.unit or tuple(r["prefix"]) != s.prefix:
                sh.violation(case, f"{s.text!r} should read as {s.prefix} x {s.unit} but reads as "
                                   f"{tuple(r['prefix'])} x {r['full']}")
    for chunk_start in range(0, len(mine_rej), 500):
        chunk = mine_rej[chunk_start:chunk_start + 500]
        res = w.call({"op": "resolve", "sid": "p", "idents": [s.text for s in chunk]})["res"]
        for s, r in zip(chunk, res):
            sh.judged()
            sh.count("rejected_checked")
            if r is not None and r["full"] == s.unit and tuple(r["prefix"]) == s.prefix:
                sh.violation({"identifier": s.text, "unit": s.unit, "prefix": list(s.prefix), "form": s.form},
                             f"{s.text!r} is read as {s.prefix} x {s.unit} although alias {s.alias!r} does not accept "
                             f"{s.form} {'metric' if s.prefix[0] == 'm' else 'binary'} prefixes")

    # 2. evaluation: `1 id` denotes prefix factor x unit; its display reads back
    es = EvalSession(w, refresh=300)
    for s in mine_acc:
        case = {"identifier": s.text, "unit": s.unit, "prefix": list(s.prefix), "form": s.form}
        code = f"1 {s.text} -> {s.text}"
        try:
            r = es.eval(code)
        except (WorkerDied, WorkerTimeout) as e:
            sh.violation(case, f"interpreter crashed/hung on `{code}`: {e}")
            w.restart()
            es.reset()
            continue
        sh.judged()
        expect = nmul(prefix_factor(s.prefix), db.base_factor(s.unit))
        why = None
        if r.get("status") == "panic":
            why = f"panic {r['panic']}"
        elif not r.get("ok"):
            why = f"`{code}` fails: {r.get('stage')}/{r.get('kind')}: {r.get('msg')}"
        else:
            v = r["value"]
            u = v.get("unit", [])
            if v.get("t") != "q" or len(u) != 1 or u[0]["name"] != s.unit or tuple(u[0]["prefix"]) != s.prefix \
                    or u[0]["exp"] != ["1", "1"]:
                why = f"`1 {s.text}` is {v.get('text')!r} with unit {v.get('unit_text')!r}, not {s.prefix} x {s.unit}"
            elif not rel_close(db.base_value(v), expect):
                why = f"`1 {s.text}` has base value {float(db.base_value(v))!r}, model says {float(expect)!r}"
        if why is None:
            # read back the displayed form
            shown = r["value"]["unit_text"]
            rr = w.call({"op": "resolve", "sid": "p", "idents": [shown]})["res"][0]
            if rr is None or rr["full"] != s.unit or tuple(rr["prefix"]) != s.prefix:
                why = (f"`{code}` is displayed with unit {shown!r}, which reads back as "
                       f"{None if rr is None else (tuple(rr['prefix']), rr['full'])}, not {s.prefix} x {s.unit}")
            else:
                back = es.eval(r["val_text"])
                if not back.get("ok") or back["value"].get("t") != "q" or \
                        not rel_close(db.base_value(back["value"]), expect):
                    why = (f"displayed text {r['val_text']!r} evaluates to "
                           f"{back.get('val_text') or back.get('msg')!r}, not the same quantity")
                    if is_f11(Spelling(shown, s.unit, s.prefix, shown[len(shown) - 1:], "short")) or \
                            not single_token(shown):
                        sh.known_hit("F11", dict(case, displayed=r["val_text"]))
                        why = None
        if why:
            if is_f11(s):
                sh.known_hit("F11", case)
            else:
                sh.violation(case, why)
        if s.form != "plain" and len(sh.samples) < 3:
            sh.sample({"identifier": s.text, "reads_as": [list(s.prefix), s.unit], "displayed": r.get("val_text")})

    # 2b. several prefixes of one unit in ONE input (all statements of an input are compiled before any runs, so tables
    #     built at compile time — prefixes, constants — are shared by everything in the input): every element of
    #     `[1 kU -> U, 1 MiU -> U, ...]` must be its own prefix factor
    by_unit = {}
    for s in mine_acc:
        if single_token(s.text) and not is_f11(s):
            by_unit.setdefault(s.unit, []).append(s)
    for unit, sps in sorted(by_unit.items()):
        plain = next((x for x in acc if x.unit == unit and x.form == "plain" and single_token(x.text)), None)
        if plain is None:
            continue
        for start in range(0, len(sps), 24):
            group = sps[start:start + 24]
            if len(group) < 2:
                continue
            code = "[" + ", ".join(f"(1 {x.text} -> {plain.text})" for x in group) + "]"
            try:
                r = es.eval(code)
            except (WorkerDied, WorkerTimeout) as e:
                sh.violation({"code": code[:300]}, f"interpreter crashed/hung on a list of prefixed units: {e}")
                w.restart()
                es.reset()
                continue
            sh.judged()
            sh.count("multi_prefix_inputs")
            if not r.get("ok") or (r.get("value") or {}).get("t") != "list":
                sh.violation({"code": code[:400]}, f"`{code[:200]}…` fails: {r.get('msg') or r.get('panic')}")
                continue
            for x, item in zip(group, r["value"]["items"]):
                want = prefix_factor(x.prefix)
                got = qval(item) if item.get("t") == "q" else None
                if got is None or not rel_close(exact(got), want):
                    sh.violation({"identifier": x.text, "code": code[:400], "signature": "multi-prefix input"},
                                 f"in one input with other prefixed forms of {unit}, `1 {x.text} -> {plain.text}` is {got!r}, "
                                 f"the prefix factor is {float(want)!r}")
                    break

    # 3. definition-time guard: an identifier of the table cannot be defined again
    rng = rng_for(spec["seed"], "C13", idx)
    sample = rng.sample(mine_acc, min(len(mine_acc), 60 if spec["tier"] == "quick" else 400))
    for s in sample:
        if not single_token(s.text):
            continue
        for code, what in ((f"unit {s.text}", "base unit"), (f"let {s.text} = 1", "variable"),
                           (f"@aliases({s.text}: both)\n@metric_prefixes\nunit vfq_{idx}", "alias")):
            sid = w.fork("p")
            r = w.eval(sid, code, stmts=False)
            w.drop(sid)
            sh.judged()
            sh.count("redefinitions_tried")
            if r.get("ok"):
                sh.violation({"identifier": s.text, "code": code},
                             f"`{code}` is accepted although {s.text!r} already reads as {s.prefix} x {s.unit}: "
                             f"the identifier now has two readings")
            elif r.get("status") == "panic":
                sh.violation({"identifier": s.text, "code": code}, f"panic: {r['panic']}")
    es.close()


def replay(sh, case):
    w = get_worker()
    db = load_unitdb(w)
    text = case["identifier"]
    rr = w.call({"op": "resolve", "sid": "p", "idents": [text]})["res"][0]
    print("resolve:", rr)
    sid = w.fork("p")
    r = w.eval(sid, case.get("code") or f"1 {text} -> {text}", stmts=False)
    print("eval:", r.get("val_text") or r.get("msg"))
    if "unit" in case and "prefix" in case and "code" not in case:
        if rr is None or rr["full"] != case["unit"] or list(rr["prefix"]) != list(case["prefix"]):
            sh.violation(case, f"{text!r} does not read as {case['prefix']} x {case['unit']}")
    if "code" in case and r.get("ok"):
        sh.violation(case, "redefinition accepted")


LEVEL_TEXT = ("Exhaustive over a finite table: every (alias, prefix, short/long form) combination of the prelude — accepted "
              "and rejected cells — is pushed through the session's real prefix parser and through evaluation; a monitor "
              "compares each reading with the harness' own table and exact-rational unit model, checks that displayed "
              "prefixed units read back, and that no identifier has two readings or can be re-defined.")
LEVEL_NOTE = ("Trusted: the harness' prefix table and acceptance rule (from the documentation), the UnitDB model, the guarded "
              "accessor exposing PrefixParser::parse. Known finding F11 is matched by its signature only.")
TECHNIQUE = "runtime monitoring: exhaustive table-driven resolution/evaluation/read-back monitor against an independent prefix table"
