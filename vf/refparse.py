"""Reference model of numbat's *documented* expression syntax (C10).

Written from the grammar in the header comment of numbat/src/parser.rs and the precedence table in
book/src/basics/operations.md — not from the parser's code.  Three pieces:

  * `Recogniser`     tokens -> ("ok", tree) | ("reject", why) | ("undetermined", why)
  * `to_tokens`      tree -> tokens with the minimal parentheses the precedence levels require
  * `render`         tokens -> text, with random documented spellings and whitespace

Trees use the s-expression format of server/src/astdump.rs.

Where the two documents are silent or disagree the recogniser answers "undetermined" and the case is not judged:
  - `a * b / c` and `a + b - c` (the table puts `/` above `*` and `-` above `+`, the grammar has one level each);
  - a juxtaposed right operand that starts with a string, list, boolean, NaN/inf or hex/octal/binary literal
    (derivable from `ifactor ::= power (" " power)*`, never shown in the book);
  - a trailing comma in an argument list or list literal (the grammar documents it only for struct fields);
  - `x |> e` where e is a call whose callee is not a plain identifier.
One correction is applied to the header grammar: its `factor ::= unary (("*"|"/") per_factor)*` cannot derive
`a per b * c` at all; the table (per binds tighter than * and /) is followed, i.e. the first operand of a
factor is a per_factor as well.
"""
from __future__ import annotations

import struct

KEYWORDS = {"per", "to", "let", "fn", "where", "and", "dimension", "unit", "use", "struct", "long", "short", "both",
            "none", "if", "then", "else", "true", "false", "NaN", "inf", "print", "assert", "assert_eq", "type",
            "Bool", "String", "DateTime", "Fn", "List"}

NAN_BITS = "7ff8000000000000"


def bits(x: float) -> str:
    if x != x:
        return NAN_BITS
    return struct.pack(">d", x).hex()


def num(x: float):
    return ["num", bits(float(x))]


# ---------------------------------------------------------------------------------------------
# tokens: (kind, payload)
#   ("num", (value, spelling))      decimal literal
#   ("basenum", (value, spelling))  0x / 0o / 0b literal
#   ("id", name) ("str", text) ("kw", word) ("op", canonical) ("upow", k)

BINOPS = {"->": "conv", "||": "or", "&&": "and", "<": "lt", ">": "gt", "<=": "le", ">=": "ge", "==": "eq", "!=": "ne",
          "+": "add", "-": "sub", "*": "mul", "/": "div", "^": "pow"}
CMP = ("<", ">", "<=", ">=", "==", "!=")


class Reject(Exception):
    pass


class Recogniser:
    def __init__(self, tokens):
        self.t = list(tokens)
        self.i = 0
        self.undetermined = None

    # -- helpers
    def peek(self):
        return self.t[self.i] if self.i < len(self.t) else ("eof", None)

    def is_op(self, *ops):
        k, p = self.peek()
        return k == "op" and p in ops

    def is_kw(self, w):
        k, p = self.peek()
        return k == "kw" and p == w

    def advance(self):
        tok = self.peek()
        self.i += 1
        return tok

    def expect_op(self, op):
        if not self.is_op(op):
            raise Reject(f"expected {op!r} at token {self.i}")
        self.i += 1

    def undet(self, why):
        if self.undetermined is None:
            self.undetermined = why

    # -- grammar
    def parse(self):
        try:
            tree = self.expression()
            if self.peek()[0] != "eof":
                raise Reject(f"trailing token {self.peek()!r} at {self.i}")
        except Reject as e:
            if self.undetermined:
                return ("undetermined", self.undetermined)
            return ("reject", str(e))
        if self.undetermined:
            return ("undetermined", self.undetermined)
        return ("ok", tree)

    def expression(self):
        return self.postfix_apply()

    def postfix_apply(self):
        e = self.condition()
        while self.is_op("|>"):
            self.advance()
            rhs = self.call()
            if rhs[0] == "id":
                e = ["call", rhs, e]
            elif rhs[0] == "call":
                if rhs[1][0] != "id":
                    self.undet("|> followed by a call whose callee is not an identifier")
                e = ["call", rhs[1]] + rhs[2:] + [e]
            else:
                raise Reject("|> must be followed by an identifier or a call")
        return e

    def condition(self):
        if self.is_kw("if"):
            self.advance()
            c = self.conversion()
            if not self.is_kw("then"):
                raise Reject("expected then")
            self.advance()
            t = self.condition()
            if not self.is_kw("else"):
                raise Reject("expected else")
            self.advance()
            e = self.condition()
            return ["if", c, t, e]
        return self.conversion()

    def _left(self, ops, sub):
        e = sub()
        while self.is_op(*ops):
            op = self.advance()[1]
            r = sub()
            e = [BINOPS[op], e, r]
        return e

    def conversion(self):
        return self._left(("->",), self.logical_or)

    def logical_or(self):
        return self._left(("||",), self.logical_and)

    def logical_and(self):
        return self._left(("&&",), self.logical_neg)

    def logical_neg(self):
        if self.is_op("!"):
            self.advance()
            return ["not", self.logical_neg()]
        return self.comparison()

    def comparison(self):
        return self._left(CMP, self.term)

    def term(self):
        e = self.factor()
        prev = None
        while self.is_op("+", "-"):
            op = self.advance()[1]
            if op == "-" and prev == "+":
                self.undet("a + b - c: table and grammar give different (equal-valued) trees")
            r = self.factor()
            e = [BINOPS[op], e, r]
            prev = op
        return e

    def factor(self):
        e = self.per_factor()
        prev = None
        while self.is_op("*", "/"):
            op = self.advance()[1]
            if op == "/" and prev == "*":
                self.undet("a * b / c: table and grammar give different (equal-valued) trees")
            r = self.per_factor()
            e = [BINOPS[op], e, r]
            prev = op
        return e

    def per_factor(self):
        e = self.unary()
        while self.is_kw("per"):
            self.advance()
            r = self.unary()
            e = ["div", e, r]
        return e

    def unary(self):
        if self.is_op("-"):
            self.advance()
            return ["neg", self.unary()]
        if self.is_op("+"):
            self.advance()
            return self.unary()
        return self.ifactor()

    def starts_power(self):
        k, p = self.peek()
        if k in ("num", "id"):
            return True
        if k == "op" and p in ("(", "?"):
            return True
        if k in ("basenum", "str", "istr") or (k == "kw" and p in ("true", "false", "NaN", "inf")) or (k == "op" and p == "["):
            self.undet("juxtaposed operand starting with a string/list/boolean/NaN/inf/based literal")
        return False

    def ifactor(self):
        e = self.power()
        while self.starts_power():
            r = self.power()
            e = ["mul", e, r]
        return e

    def power(self):
        e = self.factorial()
        if self.is_op("^"):
            self.advance()
            neg = False
            if self.is_op("-"):
                self.advance()
                neg = True
            r = self.power()
            if neg:
                r = ["neg", r]
            e = ["pow", e, r]
        return e

    def factorial(self):
        e = self.unicode_power()
        n = 0
        while self.is_op("!"):
            self.advance()
            n += 1
        if n:
            e = ["fact", n, e]
        return e

    def unicode_power(self):
        e = self.call()
        if self.peek()[0] == "upow":
            k = self.advance()[1]
            e = ["pow", e, num(k)]
        return e

    def call(self):
        e = self.primary()
        while True:
            if self.is_op("("):
                self.advance()
                args = self.arguments()
                e = ["call", e] + args
            elif self.is_op("."):
                self.advance()
                k, p = self.peek()
                if k != "id":
                    raise Reject("expected identifier after '.'")
                self.advance()
                e = ["field", e, p]
            else:
                return e

    def arguments(self):
        if self.is_op(")"):
            self.advance()
            return []
        args = [self.expression()]
        while True:
            if self.is_op(","):
                self.advance()
                if self.is_op(")"):
                    self.undet("trailing comma in argument list")
                    self.advance()
                    return args
                args.append(self.expression())
            elif self.is_op(")"):
                self.advance()
                return args
            else:
                raise Reject("expected , or ) in arguments")

    def primary(self):
        k, p = self.peek()
        if k in ("num", "basenum"):
            self.advance()
            return num(p[0])
        if k == "kw" and p in ("true", "false"):
            self.advance()
            return ["bool", p == "true"]
        if k == "kw" and p == "NaN":
            self.advance()
            return ["num", NAN_BITS]
        if k == "kw" and p == "inf":
            self.advance()
            return num(float("inf"))
        if k == "str":
            self.advance()
            return ["str", ["fixed", p]]
        if k == "istr":
            # string with interpolations: every `{...}` holds one expression (own token list)
            self.advance()
            out = ["str"]
            for part in p:
                if part[0] == "fixed":
                    if part[1] != "":
                        out.append(["fixed", part[1]])
                    continue
                sub = Recogniser(part[1])
                verdict = sub.parse()
                if verdict[0] == "undetermined":
                    self.undet(verdict[1])
                    raise Reject("undetermined inside interpolation")
                if verdict[0] != "ok":
                    raise Reject("interpolation: " + verdict[1])
                out.append(["interp", verdict[1], part[2]])
            return out
        if k == "op" and p == "?":
            self.advance()
            return ["hole"]
        if k == "op" and p == "[":
            self.advance()
            items = []
            if self.is_op("]"):
                self.advance()
                return ["list"]
            items.append(self.expression())
            while True:
                if self.is_op(","):
                    self.advance()
                    if self.is_op("]"):
                        self.undet("trailing comma in list")
                        self.advance()
                        return ["list"] + items
                    items.append(self.expression())
                elif self.is_op("]"):
                    self.advance()
                    return ["list"] + items
                else:
                    raise Reject("expected , or ] in list")
        if k == "op" and p == "(":
            self.advance()
            e = self.expression()
            self.expect_op(")")
            return e
        if k == "id":
            self.advance()
            if self.is_op("{"):
                self.advance()
                fields = []
                while not self.is_op("}"):
                    fk, fp = self.peek()
                    if fk != "id":
                        raise Reject("expected field name")
                    self.advance()
                    self.expect_op(":")
                    fields.append([fp, self.expression()])
                    if self.is_op(","):
                        self.advance()
                    elif not self.is_op("}"):
                        raise Reject("expected , or } in struct")
                self.advance()
                return ["struct", p] + fields
            return ["id", p]
        raise Reject(f"expected primary, found {self.peek()!r} at {self.i}")


def recognise(tokens):
    return Recogniser(tokens).parse()


# ---------------------------------------------------------------------------------------------
# tree -> tokens (minimal parentheses from the precedence levels)

L_PIPE, L_IF, L_CONV, L_OR, L_AND, L_NOT, L_CMP, L_TERM, L_FACTOR, L_PER, L_UNARY, L_JUXT, L_POW, L_FACT, L_UPOW, L_CALL, L_PRIMARY = range(17)

CANON = {"conv": "->", "or": "||", "and": "&&", "lt": "<", "gt": ">", "le": "<=", "ge": ">=", "eq": "==", "ne": "!=",
         "add": "+", "sub": "-", "mul": "*", "div": "/", "pow": "^"}
# generator-only node kinds (rendering choices that the parser's tree does not distinguish):
#   ["juxt", a, b]  -> ["mul", a, b]     ["per", a, b] -> ["div", a, b]
#   ["upow", a, k]  -> ["pow", a, num(k)]
#   ["pipe", x, f, args...] -> ["call", f, args..., x]


def level(node):
    k = node[0]
    if k == "pipe":
        return L_PIPE
    if k == "if":
        return L_IF
    if k == "conv":
        return L_CONV
    if k == "or":
        return L_OR
    if k == "and":
        return L_AND
    if k == "not":
        return L_NOT
    if k in ("lt", "gt", "le", "ge", "eq", "ne"):
        return L_CMP
    if k in ("add", "sub"):
        return L_TERM
    if k in ("mul", "div"):
        return L_FACTOR
    if k == "per":
        return L_PER
    if k == "neg":
        return L_UNARY
    if k == "juxt":
        return L_JUXT
    if k == "pow":
        return L_POW
    if k == "fact":
        return L_FACT
    if k == "upow":
        return L_UPOW
    if k in ("call", "field"):
        return L_CALL
    return L_PRIMARY


def desugar(node):
    """generator tree -> the tree the parser must produce"""
    k = node[0]
    if k in ("num", "id", "bool", "hole"):
        return list(node)
    if k == "numlit":                      # ["numlit", value, spelling, kind]
        return num(node[1])
    if k == "str":
        out = ["str"]
        for p in node[1:]:
            if p[0] == "fixed":
                out.append(["fixed", p[1]])
            else:
                out.append(["interp", desugar(p[1]), p[2]])
        return out
    if k == "juxt":
        return ["mul", desugar(node[1]), desugar(node[2])]
    if k == "per":
        return ["div", desugar(node[1]), desugar(node[2])]
    if k == "upow":
        return ["pow", desugar(node[1]), num(node[2])]
    if k == "pipe":
        return ["call", desugar(node[2])] + [desugar(a) for a in node[3:]] + [desugar(node[1])]
    if k == "fact":
        return ["fact", node[1], desugar(node[2])]
    if k == "field":
        return ["field", desugar(node[1]), node[2]]
    if k == "struct":
        return ["struct", node[1]] + [[f, desugar(e)] for f, e in node[2:]]
    return [k] + [desugar(c) for c in node[1:]]


def op(p):
    return ("op", p)


def to_tokens(node, need=0, rng=None, redundant=0.0):
    """tokens of `node`, parenthesised iff its level is below `need` (or at random with prob. `redundant`)"""
    toks = _tok(node, rng, redundant)
    if level(node) < need or (rng is not None and redundant and rng.random() < redundant):
        return [op("(")] + toks + [op(")")]
    return toks


def _tok(node, rng, red):
    k = node[0]
    T = lambda n, need: to_tokens(n, need, rng, red)
    if k == "numlit":
        if node[3] == "kw":
            return [("kw", node[2])]
        return [("basenum" if node[3] == "base" else "num", (node[1], node[2]))]
    if k == "num":
        raise ValueError("use numlit in generator trees")
    if k == "id":
        return [("id", node[1])]
    if k == "bool":
        return [("kw", "true" if node[1] else "false")]
    if k == "hole":
        return [op("?")]
    if k == "str":
        if all(p[0] == "fixed" for p in node[1:]):
            return [("str", "".join(p[1] for p in node[1:]))]
        return [("istr", [(p[0], p[1]) if p[0] == "fixed" else ("interp", to_tokens(p[1], 0, rng, red), p[2]) for p in node[1:]])]
    if k == "list":
        out = [op("[")]
        for i, c in enumerate(node[1:]):
            if i:
                out.append(op(","))
            out += T(c, 0)
        return out + [op("]")]
    if k == "struct":
        out = [("id", node[1]), op("{")]
        for i, (f, e) in enumerate(node[2:]):
            if i:
                out.append(op(","))
            out += [("id", f), op(":")] + T(e, 0)
        return out + [op("}")]
    if k == "pipe":
        lhs = T(node[1], L_PIPE if node[1][0] == "pipe" else L_IF)
        out = lhs + [op("|>")] + T(node[2], L_PRIMARY)
        if len(node) > 3:
            out.append(op("("))
            for i, a in enumerate(node[3:]):
                if i:
                    out.append(op(","))
                out += T(a, 0)
            out.append(op(")"))
        return out
    if k == "if":
        return [("kw", "if")] + T(node[1], L_CONV) + [("kw", "then")] + T(node[2], L_IF) + [("kw", "else")] + T(node[3], L_IF)
    if k == "conv":
        return T(node[1], L_CONV) + [op("->")] + T(node[2], L_OR)
    if k == "or":
        return T(node[1], L_OR) + [op("||")] + T(node[2], L_AND)
    if k == "and":
        return T(node[1], L_AND) + [op("&&")] + T(node[2], L_NOT)
    if k == "not":
        return [op("!")] + T(node[1], L_NOT)
    if k in ("lt", "gt", "le", "ge", "eq", "ne"):
        return T(node[1], L_CMP) + [op(CANON[k])] + T(node[2], L_TERM)
    if k in ("add", "sub"):
        lhs = T(node[1], L_TERM)
        if k == "sub" and node[1][0] == "add" and lhs[0] != op("("):
            lhs = [op("(")] + lhs + [op(")")]        # table vs grammar: keep the tree unambiguous
        return lhs + [op(CANON[k])] + T(node[2], L_FACTOR)
    if k in ("mul", "div"):
        lhs = T(node[1], L_FACTOR)
        if k == "div" and node[1][0] == "mul" and lhs[0] != op("("):
            lhs = [op("(")] + lhs + [op(")")]
        return lhs + [op(CANON[k])] + T(node[2], L_PER)
    if k == "per":
        return T(node[1], L_PER) + [("kw", "per")] + T(node[2], L_UNARY)
    if k == "neg":
        return [op("-")] + T(node[1], L_UNARY)
    if k == "juxt":
        return T(node[1], L_JUXT) + T(node[2], L_POW)
    if k == "pow":
        lhs = T(node[1], L_FACT)
        r = node[2]
        if r[0] == "neg" and level(r[1]) >= L_POW:
            return lhs + [op("^"), op("-")] + T(r[1], L_POW)
        return lhs + [op("^")] + T(r, L_POW)
    if k == "fact":
        return T(node[2], L_UPOW) + [op("!")] * node[1]
    if k == "upow":
        return T(node[1], L_CALL) + [("upow", node[2])]
    if k == "call":
        out = T(node[1], L_CALL) + [op("(")]
        for i, a in enumerate(node[2:]):
            if i:
                out.append(op(","))
            out += T(a, 0)
        return out + [op(")")]
    if k == "field":
        return T(node[1], L_CALL) + [op("."), ("id", node[2])]
    raise ValueError(f"unknown node {k}")


# ---------------------------------------------------------------------------------------------
# tokens -> text

SPELL = {"*": ["*", "×", "·", "⋅"], "/": ["/", "÷"], "^": ["^", "**"], "->": ["->", "→", "➞", "to"],
         "<=": ["<=", "≤"], ">=": [">=", "≥"], "!=": ["!=", "≠"]}
SUP = {1: "¹", 2: "²", 3: "³", 4: "⁴", 5: "⁵", 6: "⁶", 7: "⁷", 8: "⁸", 9: "⁹"}


def tok_text(tok, rng, plain=False):
    k, p = tok
    if k in ("num", "basenum"):
        return p[1]
    if k in ("id", "kw"):
        return p
    if k == "str":
        return '"' + p + '"'
    if k == "istr":
        out = '"'
        for part in p:
            if part[0] == "fixed":
                out += part[1]
            else:
                out += "{" + render(part[1], rng, plain) + (part[2] or "") + "}"
        return out + '"'
    if k == "upow":
        return ("⁻" if p < 0 else "") + SUP[abs(p)]
    if k == "op":
        if not plain and rng is not None and p in SPELL:
            return rng.choice(SPELL[p])
        return p
    raise ValueError(tok)


def _cls(text, at_end):
    c = text[-1] if at_end else text[0]
    if c in "([,":
        return "open" if c != "," else "comma"
    if c in ")]":
        return "close"
    if c == '"':
        return "str"
    if c.isalnum() or c == "_" or ord(c) > 127 and c not in "×·⋅÷→➞≤≥≠¹²³⁴⁵⁶⁷⁸⁹⁻":
        return "alnum"
    return "sym"


def render(tokens, rng=None, plain=False):
    """text of a token sequence.  Tokens are separated by blanks except where gluing cannot change the
    token boundaries; `.` is glued to a following identifier (that is what makes it a field access)."""
    out = ""
    prev = None
    prev_tok = None
    for tok in tokens:
        t = tok_text(tok, rng, plain)
        if prev is None:
            out = t
        else:
            glue_ok = False
            a, b = _cls(prev, True), _cls(t, False)
            if prev_tok == ("op", ".") and tok[0] == "id":
                sep = ""
                out += sep + t
                prev, prev_tok = t, tok
                continue
            if tok[0] == "upow":
                glue_ok = prev_tok[0] in ("id",) or prev_tok == ("op", ")")
            elif tok == ("op", "."):
                glue_ok = prev_tok[0] == "id" or prev_tok == ("op", ")") or prev_tok == ("op", "]")
            elif a == "open" or b == "close" or b == "comma":
                glue_ok = True
            elif a == "comma":
                glue_ok = True
            elif a == "close" and b == "sym" and not t.startswith("."):
                glue_ok = True
            elif a == "alnum" and b == "sym" and not t.startswith(".") and tok[0] == "op" and prev_tok[0] != "kw":
                glue_ok = True
            elif a == "sym" and b == "alnum" and prev_tok[0] == "op" and prev_tok[1] != "." and tok[0] in ("id", "num") \
                    and not (tok[0] == "num" and False):
                glue_ok = True
            elif a == "sym" and b == "open" and prev_tok[0] == "op":
                glue_ok = True
            if plain or rng is None:
                sep = "" if (glue_ok and (a == "open" or b in ("close", "comma") or tok[0] == "upow" or tok == ("op", "."))) else " "
                if a == "comma":
                    sep = " "
            else:
                r = rng.random()
                if tok[0] == "upow":
                    sep = "" if (glue_ok and r < 0.85) else " "
                elif glue_ok and r < 0.45:
                    sep = ""
                elif r < 0.9:
                    sep = " "
                else:
                    sep = rng.choice(["  ", "\t", " \t "])
            out += sep + t
        prev, prev_tok = t, tok
    return out
