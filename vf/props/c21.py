"""C21 — assertions decide exactly their documented predicate."""
import math
from fractions import Fraction

from ..core import get_worker, rng_for, qval, WorkerDied, WorkerTimeout
from ..unitdb import load_unitdb, rel_close, nmul, nadd, exact, to_dec
from ..gen import UnitPool, EvalSession, plit, lit, random_magnitude, atom_uexpr

LEVEL = "exploration"
RULE = ("seeded random assertions, each embedded in an input `print(\"before\"); <assertion>; print(\"after\"); let marker`: "
        "assert(c) with boolean expressions of known truth; assert_eq(a, b) over same-dimension prelude unit pairs "
        "(clearly different / exactly equal / equal up to rounding), booleans, strings, lists; assert_eq(a, b, eps) with "
        "eps in a third unit (clear margin either side, NaN operands, negative eps, and an exact stratum of dyadic "
        "values where |a-b| == eps exactly and eps one ulp smaller). The monitor checks outcome vs model predicate, the "
        "error kind, and that nothing after a failing assertion ran (no print, no definition). distinct = assertion "
        "text; non-trivial = operands in different units or the exact-boundary stratum")
EXHAUSTIVE = {"quick": False, "thorough": False}
FLOOR = {"quick": 1500, "thorough": 20000}
ASSUMPTIONS = ["model decides only when the exact margin exceeds 1e-9 relative (or the case is exact in f64); in between the "
               "outcome must agree with numbat's own comparison of the converted operands"]
NSHARDS = 16


def shards(tier, seed):
    n = 5000 if tier == "quick" else 100000
    return [{"idx": i, "n": NSHARDS, "seed": seed, "count": n // NSHARDS} for i in range(NSHARDS)]


def gen_bool(rng, depth=2):
    """(text, truth)"""
    if depth == 0 or rng.random() < 0.3:
        c = rng.randrange(5)
        if c == 0:
            return "true", True
        if c == 1:
            return "false", False
        a, b = rng.randint(-5, 5), rng.randint(-5, 5)
        op = rng.choice(["<", ">", "<=", ">=", "==", "!="])
        truth = {"<": a < b, ">": a > b, "<=": a <= b, ">=": a >= b, "==": a == b, "!=": a != b}[op]
        u = rng.choice(["", " m", " s", " kg"])
        return f"({plit(a)}{u} {op} {plit(b)}{u})", truth
    c = rng.randrange(3)
    if c == 0:
        t, v = gen_bool(rng, depth - 1)
        return f"(!{t})", not v
    a, va = gen_bool(rng, depth - 1)
    b, vb = gen_bool(rng, depth - 1)
    if c == 1:
        return f"({a} && {b})", va and vb
    return f"({a} || {b})", va or vb


_DIMLESS = None


def gen_case(rng, db, pool):
    """returns dict(assertion text, expect: True/False/None(boundary), probe: numbat expression for the boundary,
    kind, nontrivial)"""
    r = rng.random()
    if r < 0.15:
        t, v = gen_bool(rng, 3)
        return {"a": f"assert({t})", "expect": v, "kind": "assert", "fail_kind": "AssertFailed", "nt": True}
    if r < 0.25:
        # non-quantities
        c = rng.randrange(4)
        if c == 0:
            x, y = rng.choice([True, False]), rng.choice([True, False])
            return {"a": f"assert_eq({str(x).lower()}, {str(y).lower()})", "expect": x == y, "kind": "eq2_bool",
                    "fail_kind": "AssertEq2Failed", "nt": True}
        if c == 1:
            x, y = rng.choice(["foo", "bar", "", "fo"]), rng.choice(["foo", "bar", "", "fo"])
            return {"a": f'assert_eq("{x}", "{y}")', "expect": x == y, "kind": "eq2_string",
                    "fail_kind": "AssertEq2Failed", "nt": True}
        xs = [rng.randint(0, 3) for _ in range(rng.randint(1, 3))]
        ys = list(xs) if rng.random() < 0.5 else [rng.randint(0, 3) for _ in range(len(xs))]
        u = rng.choice(["", " m"])
        f = lambda l: "[" + ", ".join(f"{v}{u}" for v in l) + "]"
        return {"a": f"assert_eq({f(xs)}, {f(ys)})", "expect": xs == ys, "kind": "eq2_list",
                "fail_kind": "AssertEq2Failed", "nt": True}
    a_unit = rng.choice(pool.names)
    if rng.random() < 0.12:
        # dimensionless units whose size is not 1 (degree, percent, ppm, dozen, turn, ...)
        global _DIMLESS
        if _DIMLESS is None:
            _DIMLESS = [n for n in pool.names if not atom_uexpr(db, pool.primary(n)).dim]
        if _DIMLESS:
            a_unit = rng.choice(_DIMLESS)
    b_unit = pool.sibling(rng, a_unit)
    sa, sb = pool.random_spelling(rng, a_unit, 0.3), pool.random_spelling(rng, b_unit, 0.3)
    ua, ub = atom_uexpr(db, sa), atom_uexpr(db, sb)
    x = random_magnitude(rng, allow_zero=False)
    A = f"{plit(x)} {sa.text}"
    va = nmul(exact(x), ua.factor)
    nt = ua.factor != ub.factor
    if r < 0.55:
        c = rng.randrange(4)
        if c == 0:      # clearly different
            y = x * rng.choice([1.001, 0.5, 2.0, -1.0]) if rng.random() < 0.5 else random_magnitude(rng)
            B = f"{plit(y)} {sb.text}"
            vb = nmul(exact(y), ub.factor)
            if rel_close(va, vb, 1e-9):
                return {"a": f"assert_eq({A}, {B})", "expect": None, "probe": f"(({A}) -> {sb.text}) == ({B})",
                        "kind": "eq2_boundary", "fail_kind": "AssertEq2Failed", "nt": nt}
            return {"a": f"assert_eq({A}, {B})", "expect": False, "kind": "eq2_differ", "fail_kind": "AssertEq2Failed", "nt": nt}
        if c == 1:      # exactly equal: same unit, same literal
            return {"a": f"assert_eq({A}, {A})", "expect": True, "kind": "eq2_same", "fail_kind": "AssertEq2Failed", "nt": False}
        if c == 2:      # equal up to rounding: must agree with numbat's own converted comparison
            B = f"({A} -> {sb.text})"
            return {"a": f"assert_eq({A}, {B})", "expect": None, "probe": f"(({A}) -> {sb.text}) == ({B})",
                    "kind": "eq2_boundary", "fail_kind": "AssertEq2Failed", "nt": nt}
        if rng.random() < 0.5:
            # infinities (always written with a unit): equal infinities are equal, everything else differs; judged
            # against numbat's own `==` on the converted operand, like every other boundary case
            sx, sy = rng.choice([("inf", "inf"), ("-inf", "-inf"), ("inf", "-inf"), ("-inf", "inf"), ("inf", None), (None, "-inf")])
            A2 = f"({sx}) {sa.text}" if sx else A
            B2 = f"({sy}) {sb.text}" if sy else f"{plit(x)} {sb.text}"
            return {"a": f"assert_eq({A2}, {B2})", "expect": None, "probe": f"(({A2}) -> {sb.text}) == ({B2})",
                    "kind": "eq2_infinite", "fail_kind": "AssertEq2Failed", "nt": nt}
        B = f"NaN {sb.text}"
        return {"a": f"assert_eq({A}, {B})", "expect": False, "kind": "eq2_nan", "fail_kind": "AssertEq2Failed", "nt": nt}
    # three-argument form
    e_unit = pool.sibling(rng, a_unit)
    se = pool.random_spelling(rng, e_unit, 0.3)
    ue = atom_uexpr(db, se)
    c = rng.random()
    if c < 0.25:
        # exact stratum: all three in the same unit, dyadic magnitudes
        p = rng.randint(1, 64) / 8.0
        q = rng.randint(1, 64) / 8.0
        d = abs(p - q)
        kind = rng.randrange(3)
        if kind == 0:
            eps, expect = d, True                     # |a-b| == eps exactly
        elif kind == 1:
            eps, expect = (math.nextafter(d, 0.0) if d > 0 else -1.0), False   # one ulp smaller
        else:
            eps, expect = math.nextafter(d, math.inf), True
        u = sa.text
        return {"a": f"assert_eq({lit(p)} {u}, {lit(q)} {u}, {plit(eps)} {u})", "expect": expect, "kind": "eq3_exact",
                "fail_kind": "AssertEq3Failed", "nt": True}
    y = x * rng.choice([1.0, 1.0001, 0.999, 1.5, -1.0, 1.0 + 1e-7])
    B = f"{plit(y)} {sb.text}"
    vb = nmul(exact(y), ub.factor)
    D = abs(nadd(va, -vb))
    if c < 0.30:
        # |inf - inf| is NaN: the documented predicate |a-b| <= eps is false
        sgn = rng.choice(["inf", "-inf"])
        return {"a": f"assert_eq(({sgn}) {sa.text}, ({sgn}) {sb.text}, 1 {se.text})", "expect": False, "kind": "eq3_infinite",
                "fail_kind": "AssertEq3Failed", "nt": nt}
    if c < 0.35:
        E = f"NaN {se.text}" if rng.random() < 0.5 else None
        if E is None:
            return {"a": f"assert_eq(NaN {sa.text}, {B}, 1 {se.text})", "expect": False, "kind": "eq3_nan",
                    "fail_kind": "AssertEq3Failed", "nt": nt}
        return {"a": f"assert_eq({A}, {B}, {E})", "expect": False, "kind": "eq3_nan", "fail_kind": "AssertEq3Failed", "nt": nt}
    # pick eps relative to D
    scale = rng.choice([0.5, 0.9, 1.1, 2.0, 100.0, 1e-3, -1.0])
    Dd = to_dec(D)
    if Dd == 0:
        eps_val = float(to_dec(abs(va)) / to_dec(ue.factor)) * 1e-6 * (1 if scale > 0 else -1)
    else:
        eps_val = float(Dd / to_dec(ue.factor)) * scale
    if eps_val == 0 or math.isinf(eps_val) or math.isnan(eps_val):
        eps_val = 1.0
    E = f"{plit(eps_val)} {se.text}"
    ve = nmul(exact(eps_val), ue.factor)
    if not ue.dim and rng.random() < 0.5:
        # dimensionless operands (degrees, percent, dozen, turns, ...): the tolerance as a bare number
        fv = float(ve)
        if fv != 0 and not math.isinf(fv):
            E = plit(fv)
            ve = exact(fv)
    if eps_val < 0:
        expect = False
    elif to_dec(D) < to_dec(ve) * to_dec("0.999999999") - to_dec(abs(va)) * to_dec("1e-12"):
        expect = True
    elif to_dec(D) > to_dec(ve) * to_dec("1.000000001") + to_dec(abs(va)) * to_dec("1e-12"):
        expect = False
    else:
        expect = None
    probe = f"abs((({A}) -> {se.text}) - (({B}) -> {se.text})) <= ({E})"
    return {"a": f"assert_eq({A}, {B}, {E})", "expect": expect, "probe": probe, "kind": "eq3",
            "fail_kind": "AssertEq3Failed", "nt": nt}


def run_case(sh, es, case, k):
    marker = f"vf_marker_{k}"
    code = f'print("before")\n{case["a"]}\nprint("after")\nlet {marker} = 1'
    reqs = [{"op": "eval", "code": code, "stmts": False},
            {"op": "eval", "code": marker, "stmts": False, "render": False}]
    if case.get("probe"):
        reqs.append({"op": "eval", "code": case["probe"], "stmts": False})
    rs = es.run(reqs)
    r, rm = rs[0], rs[1]
    sh.judged()
    rec = {"code": code, "assertion": case["a"], "kind": case["kind"]}
    if r.get("status") == "panic":
        sh.violation(rec, f"`{case['a']}`: panic {r['panic']['msg'][:200]} at {r['panic']['frame']}")
        return
    if r.get("status") == "skipped" or rm.get("status") == "skipped":
        return
    if not r.get("ok") and r.get("stage") != "runtime":
        sh.violation(rec, f"`{case['a']}` is rejected before running: {r.get('stage')}/{r.get('kind')}: {r.get('msg')}")
        return
    if r.get("msg_panic"):
        # the assertion itself was decided; the panic while *formatting its message* is C08's business
        sh.count("failure_message_render_panics")
    passed = bool(r.get("ok"))
    expect = case["expect"]
    if expect is None:
        p = rs[2]
        if p.get("ok") and p["value"].get("t") == "b":
            expect = p["value"]["v"]
            sh.count("boundary_judged_by_self_consistency")
        else:
            sh.count("boundary_probe_failed")
            return
    probs = []
    if passed != expect:
        probs.append(f"assertion {'passed' if passed else 'failed'} but its documented predicate is {expect}")
    if not passed:
        if not r.get("kind", "").startswith(case["fail_kind"]):
            probs.append(f"failure kind is {r.get('kind')}, expected {case['fail_kind']}")
        if r.get("prints") != ["before"]:
            probs.append(f"print output of the failing input is {r.get('prints')}, expected ['before']")
        if rm.get("ok"):
            probs.append("a definition after the failing assertion exists afterwards")
    else:
        if r.get("prints") != ["before", "after"]:
            probs.append(f"print output of the passing input is {r.get('prints')}")
        if not rm.get("ok"):
            probs.append("the definition after a passing assertion is missing")
    if probs:
        sh.violation(rec, f"`{case['a']}`: " + "; ".join(probs))
    if case["nt"]:
        sh.nontrivial(case["a"])
    sh.count_in("kinds", case["kind"] + ("_pass" if passed else "_fail"))
    if len(sh.samples) < 4 and case["kind"] in ("eq3", "eq3_exact"):
        sh.sample({"assertion": case["a"], "outcome": "passed" if passed else r.get("kind")})


def run_shard(sh, spec):
    w = get_worker()
    db = load_unitdb(w)
    pool = UnitPool(db)
    rng = rng_for(spec["seed"], "C21", spec["idx"])
    es = EvalSession(w, refresh=100)
    for k in range(spec["count"]):
        try:
            case = gen_case(rng, db, pool)
        except (ArithmeticError, ValueError):
            sh.count("generator_discard")
            continue
        try:
            run_case(sh, es, case, k)
        except (WorkerDied, WorkerTimeout) as e:
            sh.violation({"assertion": case["a"]}, f"interpreter crashed/hung on `{case['a']}`: {e}")
            w.restart()
            es.reset()
    es.close()


def replay(sh, case):
    w = get_worker()
    sid = w.fork("p")
    r = w.eval(sid, case["code"], stmts=False)
    print("outcome:", "passed" if r.get("ok") else (r.get("kind"), r.get("msg")), "prints:", r.get("prints"))
    print("(the expected outcome is part of the generated case: rerun the tier with the recorded seed to judge)")


LEVEL_TEXT = ("Seeded random exploration: assertions whose documented predicate is decided by an exact-rational model (or is "
              "exact in f64) are executed by the real interpreter inside marker-instrumented inputs; the monitor checks the "
              "outcome, the error kind, and — through print capture and a probe for the marker definition — that nothing "
              "after a failing assertion ran.")
LEVEL_NOTE = ("Trusted: UnitDB model with a 1e-9 margin; cases inside the margin are only required to agree with numbat's own "
              "comparison of the converted operands (self-consistency).")
TECHNIQUE = "runtime monitoring: assertion outcomes vs exact model predicate, with marker statements observing abort-on-failure"
