"""C16 — inferred function signatures are valid, principal annotations."""
import re
from fractions import Fraction

from ..core import get_worker, rng_for, WorkerDied, WorkerTimeout
from ..unitdb import load_unitdb, dim_add, dim_scale, dim_text
from ..gen import UnitPool
from ..gen_prog import ProgGen
from ..gen_session import observation

LEVEL = "exploration"
RULE = ("seeded random unannotated functions with 1-3 parameters whose parameter dimensions are symbolic (free type "
        "variables, concrete dimensions, or powers/products of other parameters) and whose body is built from products, "
        "quotients, rational powers, sums of equal-dimension terms, conditionals and generic library calls so that it "
        "forces exactly those relations. For each: the definition is accepted and echoed with its inferred signature; "
        "the echoed text, re-declared under a fresh name, must be accepted and echo the same signature; 4-6 call sites "
        "with concrete dimensions (about a third deliberately ill-dimensioned in a constrained argument) must be accepted/"
        "rejected alike by both versions, with identical result type and value. distinct = function body; non-trivial = "
        "the function has a free type variable or >= 2 parameters")
EXHAUSTIVE = {"quick": False, "thorough": False}
FLOOR = {"quick": 500, "thorough": 10000}
ASSUMPTIONS = ["the echoed (pretty-printed) definition is the checker's printed signature; it is re-declared by replacing only "
               "the function name"]
NSHARDS = 16
VARS = ["A", "B", "C"]


def EXPECTED_KNOWN(tier):
    return ["F22", "F23"]


def shards(tier, seed):
    n = 1500 if tier == "quick" else 30000
    return [{"idx": i, "n": NSHARDS, "seed": seed, "count": n // NSHARDS} for i in range(NSHARDS)]


class Sym:
    """symbolic dimension: rational combination of type variables and base dimensions"""

    def __init__(self, d=None):
        self.d = {k: Fraction(v) for k, v in (d or {}).items() if v != 0}

    def mul(self, o, sign=1):
        return Sym(dim_add(self.d, o.d, sign))

    def pow(self, k):
        return Sym(dim_scale(self.d, Fraction(k)))

    def subst(self, env):
        """concrete base-dimension vector for an assignment of type variables"""
        out = {}
        for k, v in self.d.items():
            if k in VARS:
                out = dim_add(out, dim_scale(env[k], v))
            else:
                out = dim_add(out, {k: v})
        return out

    def key(self):
        return tuple(sorted(self.d.items()))

    def free(self):
        return [k for k in self.d if k in VARS]


def gen_function(rng, pg, name):
    """returns (definition text, params: [(name, Sym)], result Sym)"""
    nparams = rng.randint(1, 3)
    params = []
    free = []
    for i in range(nparams):
        p = pg.fresh("q")
        r = rng.random()
        if r < 0.5 or not params:
            v = VARS[len(free)] if len(free) < 3 else None
            if v and rng.random() < 0.8:
                free.append(v)
                params.append((p, Sym({v: 1}), "free"))
                continue
        if r < 0.75 and params:
            q, s, _ = rng.choice(params)
            k = rng.choice([1, 2, -1, Fraction(1, 2)])
            params.append((p, s.pow(k), ("rel", q, k)))
        else:
            d = pg.random_dim()
            params.append((p, Sym(d), "concrete"))
    terms = {p: s for p, s, _ in params}
    # two further parameters that are only ever compared for (in)equality: their type needs no `Dim` bound
    eq_pair = None
    if rng.random() < 0.3:
        e1, e2 = pg.fresh("q"), pg.fresh("q")
        if len(free) < 3 and rng.random() < 0.7:
            v = VARS[len(free)]
            free.append(v)
            sy, how = Sym({v: 1}), "free"
        else:
            sy, how = Sym(pg.random_dim()), "eqonly"
        eq_pair = (e1, e2, rng.choice(["==", "!="]))
        params.append((e1, sy, "free" if how == "free" else "eqonly"))
        params.append((e2, sy, "eqfollow"))

    def expr(depth):
        """(text, Sym)"""
        r = rng.random()
        if depth <= 0 or r < 0.2:
            if rng.random() < 0.75:
                p, s, _ = rng.choice([x for x in params if x[2] not in ("eqonly", "eqfollow") and not (eq_pair and x[0] in eq_pair[:2])])
                return p, s
            d = pg.random_dim()
            return pg.literal(d).text, Sym(d)
        if r < 0.45:
            a, sa = expr(depth - 1)
            b, sb = expr(depth - 1)
            return (f"({a} * {b})", sa.mul(sb)) if rng.random() < 0.6 else (f"({a} / {b})", sa.mul(sb, -1))
        if r < 0.6:
            a, sa = expr(depth - 1)
            k = rng.choice([2, 3, -1, Fraction(1, 2), Fraction(3, 2), -2])
            kt = str(k) if k == int(k) and k > 0 else f"({k.numerator}/{k.denominator})" if isinstance(k, Fraction) and k.denominator != 1 else f"({k})"
            if isinstance(k, Fraction) and k.denominator != 1:
                return f"(abs({a})^{kt})", sa.pow(k)
            return f"({a}^{kt})", sa.pow(k)
        if r < 0.75:
            a, sa = expr(depth - 1)
            c = rng.choice([2, 3, 0.5])
            op = rng.choice(["+", "-"])
            return f"({a} {op} {a} * {c})", sa           # sum of equal-dimension terms
        if r < 0.85:
            a, sa = expr(depth - 1)
            p, s, _ = rng.choice([x for x in params if not (eq_pair and x[0] in eq_pair[:2])])
            return f"(if {p} > {p} * 2 then {a} else {a} * 3)", sa
        a, sa = expr(depth - 1)
        c = rng.randrange(4)
        if c == 0:
            return f"abs({a})", sa
        if c == 1:
            return f"sqrt(abs({a}) * abs({a}))", sa
        if c == 2:
            return f"hypot2({a}, {a} * 2)", sa
        return f"sqr({a})", sa.pow(2)

    body, res = expr(rng.choice([1, 2, 2, 3]))
    forcing = []
    self_ref = None
    rels = [(p, how[1], how[2]) for p, s, how in params if isinstance(how, tuple) and how[2] in (2, -1)]
    if rels and rng.random() < 0.5:
        # a bare parameter equated (through +, - or the branches of a conditional) with a product/quotient that contains
        # the same parameter: the solver meets an equation `A ~ A^k × rest`. The sum itself forces the relation
        # between the two parameters, so no separate forcing term is added for it.
        p, q, k = rng.choice(rels)
        other = f"({p} / {q})" if k == 2 else f"({p} * {q} * {q})"
        qs = dict((n, sy) for n, sy, _ in params)[q]
        shape = rng.randrange(5)
        if shape == 0:
            sr = f"({q} + {other})"
        elif shape == 1:
            sr = f"({other} - {q})"
        elif shape == 2:
            sr = f"(if {q} > {q} * 2 then {q} else {other})"
        elif shape == 3:
            sr = f"({q} + {q} * 2 + {other} * 3)"
        else:
            sr = f"hypot2({q}, {other})"
        body, res = f"({sr} * {body})", qs.mul(res)
        self_ref = p
    for p, s, how in params:
        if p == self_ref or how in ("eqonly", "eqfollow"):
            continue
        if how == "concrete":
            lit = pg.literal(s.d).text
            forcing.append(f"(({p} / {lit}) - ({p} / {lit}))")
        elif isinstance(how, tuple):
            _, q, k = how
            kt = str(k) if k == int(k) and k > 0 else f"({k})"
            base = f"abs({q})" if isinstance(k, Fraction) and k.denominator != 1 else q
            rel = f"{base}^{kt}" if k != 1 else q
            forcing.append(f"(({p} / {rel}) - ({p} / {rel}))")
    if forcing:
        body = f"{body} * (1 + {' + '.join(forcing)})"
    if eq_pair:
        e1, e2, op = eq_pair
        body = f"(if {e1} {op} {e2} then {body} else ({body}) * 2)" if rng.random() < 0.7 else f"(if {e1} {op} {e2} && {e2} {op} {e1} then {body} else {body})"
    text = f"fn {name}({', '.join(p for p, _, _ in params)}) = {body}"
    return text, [(p, s, how) for p, s, how in params], res, free


def run_function(sh, w, db, pool, rng, k):
    pg = ProgGen(rng, db, pool, tag=f"s{k}", allow_zero=False)
    name, name2 = f"vfi_{k}", f"vfa_{k}"
    try:
        text, params, res, free = gen_function(rng, pg, name)
    except (ArithmeticError, ValueError, TypeError, AttributeError):
        sh.count("generator_discard")
        return
    case = {"definition": text}
    sid = w.fork("p")
    try:
        r1 = w.eval(sid, text, stmts=True)
        if r1.get("status") == "panic":
            sh.count("panics_left_to_C08")
            return
        if not r1.get("ok"):
            sh.count_in("unannotated_definition_rejected", str(r1.get("kind")))   # generator imprecision: not a C16 case
            return
        sh.judged()
        echoed = r1["stmts"][0]["pretty"]
        case["echoed"] = echoed
        if not re.search(r"\bfn " + re.escape(name) + r"\b", echoed):
            sh.violation(case, f"echoed definition does not name the function: {echoed!r}")
            return
        # the printed signature (everything before the body) with the *original* body: whether the echoed
        # body means the same as the original one is C15's business
        signature = echoed.split(" = ", 1)[0]
        annotated = re.sub(r"\b" + re.escape(name) + r"\b", name2, signature) + " = " + text.split(" = ", 1)[1]
        case["annotated"] = annotated
        r2 = w.eval(sid, annotated, stmts=True)
        if r2.get("status") == "panic":
            sh.count("panics_left_to_C08")
            return
        if not r2.get("ok"):
            msg = (f"re-declaring the function with its inferred signature is rejected: {r2.get('stage')}/"
                   f"{r2.get('kind')}: {r2.get('msg')}\n  inferred: {echoed}")
            sig = echoed.split(" = ")[0]
            if re.search(r"[A-Za-z] or [A-Z]", sig) and r2.get("stage") == "resolver":
                sh.known_hit("F22", dict(case, problem=msg[:300]))
            elif re.search(r"[⁰¹²³⁴⁵⁶⁷⁸⁹]{2,}|⁰", sig) and r2.get("stage") == "resolver":
                sh.known_hit("F23", dict(case, problem=msg[:300]))
            else:
                sh.violation(case, msg)
            return
        # the two versions must have the same type scheme (compared structurally, not as text: the echo of an
        # annotation keeps the user's spelling `A^2`, the echo of an inferred type uses `A²`)
        t1, t2 = r1["stmts"][0].get("type"), r2["stmts"][0].get("type")
        if (t1 or {}).get("t") == "generic" and (t2 or {}).get("t") == "generic":
            # internal representation of a bare type variable differs (TVar vs one-factor dimension type):
            # compare the canonical printed scheme (`forall A: Dim. Fn[(A) -> A²]`)
            t1, t2 = (t1["n"], t1["text"]), (t2["n"], t2["text"])
        if t1 != t2:
            sh.violation(case, f"the annotated version has a different type scheme: {str(t1)[:300]} vs {str(t2)[:300]}\n  {echoed}")
        # call sites
        for c in range(rng.randint(4, 6)):
            env = {v: pg.random_dim() for v in VARS}
            dims = [s.subst(env) for _, s, _ in params]
            bad = rng.random() < 0.35
            if bad:
                constrained = [i for i, (_, s, how) in enumerate(params) if how != "free"]
                if len(params) >= 2 and not constrained:
                    bad = False
                elif constrained:
                    i = rng.choice(constrained)
                    wd = pg.random_dim()
                    if wd == dims[i]:
                        bad = False
                    dims[i] = wd
                else:
                    bad = False
            args = []
            for d in dims:
                lit = pg.literal(d)
                if lit is None:
                    break
                args.append(lit.text)
            if len(args) != len(dims):
                continue
            a = ", ".join(args)
            o1 = observation(w.eval(sid, f"{name}({a})", stmts=False))
            o2 = observation(w.eval(sid, f"{name2}({a})", stmts=False))
            sh.judged()
            sh.count_in("call_sites", "ill-dimensioned" if bad else "well-dimensioned")
            for o in (o1, o2):
                if "diag" in o:
                    o["diag"] = re.sub(r"vf[ia]_\w+", "F", o["diag"])
                if "msg" in o and o["msg"]:
                    o["msg"] = re.sub(r"vf[ia]_\w+", "F", o["msg"])
            same = (o1.get("ok"), o1.get("value"), o1.get("shown"), o1.get("stage"), o1.get("kind")) == \
                   (o2.get("ok"), o2.get("value"), o2.get("shown"), o2.get("stage"), o2.get("kind"))
            if not same:
                sh.violation(dict(case, call=f"({a})"),
                             f"call ({a}) behaves differently: inferred version -> {str(o1)[:250]}; annotated version -> {str(o2)[:250]}\n"
                             f"  {echoed}")
            if bad and o1.get("ok"):
                sh.count("ill_dimensioned_call_accepted_by_both(generator imprecision)")
            if not bad and not o1.get("ok") and o1.get("stage") == "type":
                sh.count("well_dimensioned_call_rejected_by_both")
        if free or len(params) >= 2:
            sh.nontrivial(text)
        if len(sh.samples) < 3:
            sh.sample({"definition": text, "inferred": echoed})
    finally:
        w.drop(sid)


def run_shard(sh, spec):
    w = get_worker()
    db = load_unitdb(w)
    pool = UnitPool(db)
    rng = rng_for(spec["seed"], "C16", spec["idx"])
    for k in range(spec["count"]):
        try:
            run_function(sh, w, db, pool, rng, f"{spec['idx']}x{k}")
        except (WorkerDied, WorkerTimeout):
            sh.count("worker_died_left_to_C08")
            w.restart()


def replay(sh, case):
    w = get_worker()
    sid = w.fork("p")
    r1 = w.eval(sid, case["definition"], stmts=True)
    print("definition:", r1.get("ok"), r1.get("msg"))
    if r1.get("ok"):
        echoed = r1["stmts"][0]["pretty"]
        print("inferred:", echoed)
        name = re.search(r"fn (\w+)", echoed).group(1)
        r2 = w.eval(sid, echoed.replace(name, name + "_again"), stmts=True)
        print("annotated:", r2.get("ok"), r2.get("msg"))
        sh.judged()
        if not r2.get("ok"):
            sh.violation(case, "re-declaration with the inferred signature is rejected")


LEVEL_TEXT = ("Seeded random exploration: for generated unannotated functions the real checker's printed signature is fed back as "
              "an annotation; a differential monitor compares acceptance, echoed signature and the behaviour of well- and "
              "ill-dimensioned call sites between the inferred and the annotated version.")
LEVEL_NOTE = ("Trusted: the statement echo as the printed signature; call sites sample the space of instantiations (principality "
              "is only refuted, never proven, by sampled calls).")
TECHNIQUE = "runtime monitoring: inferred-vs-annotated differential monitor over generated functions and call sites"
