"""C24 — every documented standard-library example runs (exhaustive over @example)."""
from ..core import get_worker, WorkerDied, WorkerTimeout

LEVEL = "exploration"
RULE = ("every @example of every function listed by Context::functions() after `use all`; "
        "each evaluated in a clone of (prelude + units::currencies) after `use <its module>`, "
        "exactly as the documentation generator does; distinct = (function, example text); "
        "non-trivial = all (each is a separate documented snippet)")
EXHAUSTIVE = {"quick": True, "thorough": True}
FLOOR = {"quick": 150, "thorough": 150}
ASSUMPTIONS = ["examples that read the process arguments (function `args`) are exempt, as the property says",
               "currency rates are numbat's built-in test rates (no network)"]

ENV_DEPENDENT = {"args"}
NSHARDS = 8


def shards(tier, seed):
    return [{"idx": i, "n": NSHARDS} for i in range(NSHARDS)]


def list_examples(w):
    sid, r = w.new(sid="all", use=["all"])
    if not r.get("ok"):
        return None, r
    fns = w.call({"op": "examples", "sid": "all"})["functions"]
    w.drop("all")
    cases = []
    for f in fns:
        for code, desc in f["examples"]:
            cases.append({"fn": f["fn_name"], "module": f["module"], "code": code})
    cases.sort(key=lambda c: (c["module"], c["fn"], c["code"]))
    return cases, None


def check_example(sh, w, case):
    sid = w.fork("pc")
    try:
        r0 = w.eval(sid, f"use {case['module']}", render=False, stmts=False)
        if not r0.get("ok"):
            sh.violation(case, f"`use {case['module']}` failed in prelude+currencies: {r0.get('msg') or r0.get('panic')}", r0)
            return
        r = w.eval(sid, case["code"], stmts=False)
        sh.judged()
        sh.nontrivial(case["fn"], case["code"])
        sh.count_in("modules", case["module"])
        sh.sample({"fn": case["fn"], "module": case["module"], "code": case["code"],
                   "result": (r.get("out_text") or "").strip()})
        if not r.get("ok"):
            sh.violation(case, f"@example of `{case['fn']}` ({case['module']}) fails: "
                               f"{r.get('stage')}/{r.get('kind')}: {r.get('msg') or r.get('panic')}", r)
    finally:
        w.drop(sid)


def run_shard(sh, spec):
    w = get_worker()
    cases, err = list_examples(w)
    if cases is None:
        if spec["idx"] == 0:
            sh.violation({"code": "use all"}, f"`use all` fails: {err.get('msg') or err.get('panic')}", err)
        return
    sid, r = w.new(sid="pc", use=["prelude", "units::currencies"])
    if not r.get("ok"):
        if spec["idx"] == 0:
            sh.violation({"code": "use prelude; use units::currencies"}, f"cannot load prelude+currencies: {r.get('msg')}", r)
        return
    sh.count("examples_total_seen_by_shard", len(cases))
    for i, case in enumerate(cases):
        if i % spec["n"] != spec["idx"]:
            continue
        if case["fn"] in ENV_DEPENDENT:
            sh.count("exempt_env_dependent")
            continue
        try:
            check_example(sh, w, case)
        except (WorkerDied, WorkerTimeout) as e:
            sh.violation(case, f"interpreter crashed/hung on @example of `{case['fn']}`: {e}")
            w.restart()
            w.new(sid="pc", use=["prelude", "units::currencies"])
    w.drop("pc")


def replay(sh, case):
    w = get_worker()
    w.new(sid="pc", use=["prelude", "units::currencies"])
    check_example(sh, w, case)

LEVEL_TEXT = ("Exhaustive exploration of a finite set: all @example snippets attached to standard-library functions "
              "are executed against the real interpreter in the environment the documentation generator uses; "
              "a monitor checks each outcome (no error, no panic, no crash).")
LEVEL_NOTE = ("Trusts Context::functions() to enumerate the examples (after `use all`); examples of `args` are exempt; "
              "currency examples run on numbat's built-in test exchange rates.")
TECHNIQUE = "runtime monitoring: exhaustive execution of documented examples with outcome monitor"
