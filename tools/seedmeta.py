#!/usr/bin/env python3
"""tools/seedmeta.py <id> '<detection note>' [check:result ...]
Records in seeded/<id>/meta.json what I (not the sub-agent) ran to confirm the change and which checks catch it."""
import json, os, re, sys
sid = sys.argv[1]
note = sys.argv[2]
runs = sys.argv[3:]
d = f"/verif/seeded/{sid}"
meta_path = os.path.join(d, "meta.json")
try:
    meta = json.load(open(meta_path))
except Exception:
    meta = {"property": sid[:3]}
acc = ""
log = f"/tmp/seed/{sid}.accept.log"
if os.path.exists(log):
    lines = open(log, errors="replace").read().splitlines()
    acc = next((l for l in reversed(lines) if l.startswith(("ACCEPTED", "REJECTED"))), "")
meta["verif_confirmation"] = {
    "how": "tools/seedaccept.sh in the sub-agent's scratch worktree: patch.diff equals the worktree diff and applies to a clean "
           "checkout; `cargo test --workspace --no-fail-fast --offline` with the change; demo.sh with the change (must fail) and "
           "with the change reverted (must pass)",
    "result": acc or meta.get("verif_confirmation", {}).get("result", ""),
}
meta["verif_detection"] = {
    "how": "tools/seedtest.sh: fresh scratch worktree of /repo HEAD + patch.diff, `./check <ID> --tier quick` through VERIF_REPO, "
           "worktree and build output removed afterwards",
    "runs": [dict(zip(("check", "result"), r.split(":", 1))) for r in runs],
    "note": note,
}
json.dump(meta, open(meta_path, "w"), indent=1, ensure_ascii=False)
print("updated", meta_path, "|", acc)
