"""C10 — parsing follows the documented grammar and precedence table."""
import itertools
import json

from ..core import get_worker, rng_for, WorkerDied, WorkerTimeout
from .. import refparse as rp
from ..refparse import op

LEVEL = "exploration"
RULE = ("E (enumerated, seed-independent): every chain `x OP1 y OP2 z` without parentheses over the 14 binary operator "
        "tokens {|>, ->, ||, &&, <, ==, +, -, *, /, per, juxtaposition, ^, **-spelling} with every operand decorated by one "
        "of {none, unary -, unary +, !x, x!, x!!, x², x⁻³, f(x), x.f} (quick: 6 decorations), every 4-operand chain, and "
        "every operator inside if/then/else positions; T (seeded): random expression trees (depth <= 6) over all documented "
        "constructs rendered with minimal parentheses by precedence level plus random redundant parentheses, documented "
        "alternative spellings and whitespace; M (seeded): token-level mutations (delete/insert/swap/replace) of valid "
        "inputs. Each input is parsed by the real parser (syntax tree exported through the hook) and by the reference "
        "recogniser written from the documented grammar/table: same accept/reject decision and the same tree. "
        "distinct = input text; non-trivial = contains at least two operators")
EXHAUSTIVE = {"quick": False, "thorough": False}
FLOOR = {"quick": 20000, "thorough": 300000}
ASSUMPTIONS = ["the reference recogniser (vf/refparse.py) transcribes the documented grammar and precedence table; cases the "
               "documents leave open or answer differently are classed undetermined and not judged (listed in refparse.py)",
               "only single-line expression statements are generated; definitions, type annotations and decorators are "
               "exercised by C15/C02"]
NSHARDS = 16

IDS = ["a", "b", "c", "x", "y", "foo", "bar_2", "m", "s", "kg", "_t", "αβ", "Δt", "°C", "%", "€", "x1", "ħ", "speed_of_light",
       "to_", "perm", "iff", "truth", "infty", "NaNo", "lettuce", "e", "E", "x_y", "ü"]
FNS = ["f", "g", "sin", "sqrt", "map", "h_2"]
FIELDS = ["x", "y", "re", "len", "a1"]
STRUCTS = ["Vec", "P2", "Foo"]


def shards(tier, seed):
    n_t = 24000 if tier == "quick" else 480000
    n_m = 24000 if tier == "quick" else 480000
    out = [{"kind": "enum", "idx": i, "n": NSHARDS, "tier": tier, "seed": seed} for i in range(NSHARDS)]
    out += [{"kind": "rand", "idx": i, "n": NSHARDS, "trees": n_t, "mut": n_m, "seed": seed} for i in range(NSHARDS)]
    return out


# ---------------------------------------------------------------------------------------------
# literals

def numlit(rng):
    r = rng.random()
    if r < 0.30:
        v = rng.choice([0, 1, 2, 3, 7, 10, 42, 100, 12345, 999999, 2 ** 53, 10 ** 21])
        s = str(v)
        if len(s) > 3 and rng.random() < 0.5:
            # decimal separators: 12_345
            parts = []
            while s:
                parts.insert(0, s[-3:])
                s = s[:-3]
            s = "_".join(parts)
        elif rng.random() < 0.1:
            s = "00" + s
        return ["numlit", float(int(s.replace("_", ""))), s, "dec"]
    if r < 0.55:
        s = rng.choice(["0.234", ".234", "1.5", "2.", "0.1", "3.141_592", "1_000.000_1", ".5", "40.5", "0.000001"])
        return ["numlit", float(s.replace("_", "")), s, "dec"]
    if r < 0.75:
        s = rng.choice(["1.234e15", "1.234e+15", "1e-9", "1.0e-9", "2E3", "6.022_140e23", "1e308", "5e-324", ".5e1", "1e0_1",
                        "2.e2", "1e400"])
        return ["numlit", float(s.replace("_", "")), s, "dec"]
    if r < 0.93:
        base, pre, digits = rng.choice([(16, "0x", "0123456789abcdefABCDEF"), (8, "0o", "01234567"), (2, "0b", "01")])
        n = rng.randint(1, 10)
        ds = "".join(rng.choice(digits) for _ in range(n))
        if n > 3 and rng.random() < 0.3:
            ds = ds[:2] + "_" + ds[2:]
        return ["numlit", float(int(ds.replace("_", ""), base)), pre + ds, "base"]
    kw = rng.choice(["NaN", "inf"])
    return ["numlit", float("nan") if kw == "NaN" else float("inf"), kw, "kw"]


def leaf(rng, simple=False):
    r = rng.random()
    if simple or r < 0.45:
        return ["id", rng.choice(IDS)]
    if r < 0.8:
        return numlit(rng)
    if r < 0.86:
        return ["bool", rng.random() < 0.5]
    if r < 0.94:
        return ["str", ["fixed", rng.choice(["", "abc", "hello world", "1 + 2", "if then", "ä€", "a 'b' c", "#no comment"])]]
    return ["hole"]


BIN = ["conv", "or", "and", "lt", "gt", "le", "ge", "eq", "ne", "add", "sub", "mul", "div", "per", "juxt", "pow"]


def juxt_rhs_ok(n):
    """the right operand of a juxtaposition must start with a decimal number, identifier or `?`"""
    k = n[0]
    while k in ("pow", "fact", "upow", "call", "field", "juxt"):
        n = n[2] if k == "fact" else n[1]
        k = n[0]
    if k == "numlit":
        return n[3] == "dec"
    return k in ("id", "hole")


def has_struct(t):
    return isinstance(t, list) and (t[:1] == ["struct"] or any(has_struct(c) for c in t[1:]))


def gen_tree(rng, depth):
    if depth <= 0 or rng.random() < 0.12:
        return leaf(rng)
    r = rng.random()
    if r < 0.55:
        k = rng.choice(BIN)
        a, b = gen_tree(rng, depth - 1), gen_tree(rng, depth - 1)
        if k == "juxt":
            for _ in range(6):
                if juxt_rhs_ok(b) and rp.level(b) >= rp.L_POW:
                    break
                b = gen_tree(rng, min(depth - 1, 1))
            else:
                b = ["id", rng.choice(IDS)]
        return [k, a, b]
    if r < 0.62:
        return ["neg", gen_tree(rng, depth - 1)]
    if r < 0.66:
        return ["not", gen_tree(rng, depth - 1)]
    if r < 0.70:
        return ["fact", rng.choice([1, 1, 2, 3]), gen_tree(rng, depth - 1)]
    if r < 0.75:
        return ["upow", gen_tree(rng, depth - 1), rng.choice([1, 2, 3, 4, 5, 6, 7, 8, 9, -1, -2, -3, -9])]
    if r < 0.82:
        return ["if", gen_tree(rng, depth - 1), gen_tree(rng, depth - 1), gen_tree(rng, depth - 1)]
    if r < 0.89:
        callee = ["id", rng.choice(FNS)] if rng.random() < 0.8 else gen_tree(rng, depth - 1)
        if callee[0] == "numlit":
            callee = ["id", "f"]
        return ["call", callee] + [gen_tree(rng, depth - 1) for _ in range(rng.choice([0, 1, 1, 2, 3]))]
    if r < 0.92:
        base = gen_tree(rng, depth - 1)
        return ["field", base, rng.choice(FIELDS)]
    if r < 0.95:
        x = gen_tree(rng, depth - 1)
        return ["pipe", x, ["id", rng.choice(FNS)]] + [gen_tree(rng, depth - 2) for _ in range(rng.choice([0, 0, 1, 2]))] \
            if rng.random() < 0.5 else ["pipe", x, ["id", rng.choice(FNS)]]
    if r < 0.975:
        return ["list"] + [gen_tree(rng, depth - 1) for _ in range(rng.choice([0, 1, 2, 3]))]
    if r < 0.99:
        fields = rng.sample(FIELDS, rng.randint(0, 3))
        return ["struct", rng.choice(STRUCTS)] + [[f, gen_tree(rng, depth - 1)] for f in fields]
    inner = gen_tree(rng, min(depth - 1, 2))
    if has_struct(inner) or "str" in json.dumps(inner):
        # `{`/`}` and nested strings inside an interpolation are restricted by the tokenizer (documented as such
        # by its dedicated error messages); out of scope here
        inner = ["id", rng.choice(IDS)]
    parts = [["fixed", rng.choice(["v = ", "", "a"])], ["interp", inner, rng.choice([None, None, ":.2f", ":>8"])],
             ["fixed", rng.choice(["", "!", " m"])]]
    parts = [p for p in parts if not (p[0] == "fixed" and p[1] == "")]
    return ["str"] + parts


def nops(tree):
    if not isinstance(tree, list):
        return 0
    own = 1 if tree and tree[0] not in ("num", "id", "bool", "str", "fixed", "hole", "list") else 0
    return own + sum(nops(c) for c in tree[1:] if isinstance(c, list))


# ---------------------------------------------------------------------------------------------
# judge

def expected_of(tokens):
    flat = []
    for t in tokens:
        if t[0] == "istr":
            return None          # interpolated strings are judged against the generator's tree only
        flat.append(t)
    return rp.recognise(flat)


def judge_batch(sh, w, cases):
    """cases: [(text, expectation, meta)], expectation = ("ok", tree) | ("reject", why)"""
    if not cases:
        return
    res = w.call({"op": "parse", "codes": [c[0] for c in cases]}, timeout=300)["res"]
    for (text, exp, meta), r in zip(cases, res):
        sh.judged()
        if "panic" in r:
            sh.count("panics_left_to_C08")
            continue
        case = {"text": text, "expected": exp, "meta": meta}
        if exp[0] == "ok":
            if not r.get("ok"):
                sh.violation(dict(case, signature="rejects:" + meta.get("shape", "")[:40]),
                             f"documented-grammar input is rejected: `{text}` -> {[e['kind'] + ': ' + e['msg'] for e in r.get('errors', [])][:2]}; "
                             f"expected tree {json.dumps(exp[1])[:300]}")
                continue
            want = [["expr", exp[1]]]
            if r["stmts"] != want:
                sh.violation(dict(case, signature="tree:" + meta.get("shape", "")[:40]),
                             f"`{text}` is parsed as {json.dumps(r['stmts'])[:400]}, the documented grammar/precedence gives "
                             f"{json.dumps(want)[:400]}")
                continue
            sh.count_in("verdicts", "accepted with the documented tree")
        else:
            if r.get("ok"):
                sh.violation(dict(case, signature="accepts:" + meta.get("shape", "")[:40]),
                             f"input outside the documented grammar is accepted: `{text}` parsed as {json.dumps(r['stmts'])[:300]} "
                             f"(reference: {exp[1]})")
                continue
            sh.count_in("verdicts", "rejected by both")
            for e in r.get("errors", [])[:1]:
                sh.count_in("parse_error_kinds_seen", e["kind"])
        if meta.get("nontrivial"):
            sh.nontrivial(text)


# ---------------------------------------------------------------------------------------------
# E: enumerated chains

BINTOK = [("|>", [op("|>")]), ("->", [op("->")]), ("||", [op("||")]), ("&&", [op("&&")]), ("<", [op("<")]), ("==", [op("==")]),
          ("+", [op("+")]), ("-", [op("-")]), ("*", [op("*")]), ("/", [op("/")]), ("per", [("kw", "per")]), ("juxt", []),
          ("^", [op("^")]), ("^-", [op("^"), op("-")])]


def decorate(kind, name):
    x = ("id", name)
    return {
        "none": [x], "neg": [op("-"), x], "plus": [op("+"), x], "not": [op("!"), x], "fact": [x, op("!")],
        "fact2": [x, op("!"), op("!")], "sq": [x, ("upow", 2)], "inv3": [x, ("upow", -3)],
        "call": [("id", "f"), op("("), x, op(")")], "field": [x, op("."), ("id", "re")],
        "num": [("num", (2.0, "2"))], "paren": [op("("), x, op("+"), ("id", "w"), op(")")],
    }[kind]


def run_enum(sh, spec):
    w = get_worker()
    decs = ["none", "neg", "not", "fact", "sq", "call"] if spec["tier"] == "quick" else \
        ["none", "neg", "plus", "not", "fact", "fact2", "sq", "inv3", "call", "field", "num", "paren"]
    rng = rng_for(0, "C10enum", spec["idx"])        # spelling/whitespace only; the enumeration itself is fixed
    seqs = []
    k = 0
    for (n1, t1), (n2, t2) in itertools.product(BINTOK, BINTOK):
        for d1, d2, d3 in itertools.product(decs, decs, decs):
            k += 1
            if k % spec["n"] != spec["idx"]:
                continue
            toks = decorate(d1, "x") + t1 + decorate(d2, "y") + t2 + decorate(d3, "z")
            seqs.append((toks, f"{d1} {n1} {d2} {n2} {d3}"))
    for (n1, t1), (n2, t2), (n3, t3) in itertools.product(BINTOK, BINTOK, BINTOK):
        k += 1
        if k % spec["n"] != spec["idx"]:
            continue
        toks = [("id", "x")] + t1 + [("id", "y")] + t2 + [("id", "z")] + t3 + [("id", "u")]
        seqs.append((toks, f"{n1} {n2} {n3}"))
    # operators in and around conditionals
    for (n1, t1), pos in itertools.product(BINTOK, range(5)):
        k += 1
        if k % spec["n"] != spec["idx"]:
            continue
        c, t, e = [("id", "c")], [("id", "t")], [("id", "e")]
        extra = t1 + [("id", "q")]
        if pos == 0:
            c = c + extra
        elif pos == 1:
            t = t + extra
        elif pos == 2:
            e = e + extra
        cond = [("kw", "if")] + c + [("kw", "then")] + t + [("kw", "else")] + e
        if pos == 3:
            cond = [("id", "q")] + t1 + cond
        if pos == 4:
            cond = [("kw", "if")] + c + [("kw", "then")] + [("kw", "if")] + t + [("kw", "then")] + [("id", "p")] + extra + \
                   [("kw", "else")] + [("id", "r")] + [("kw", "else")] + e
        seqs.append((cond, f"if/{n1}/pos{pos}"))
    cases = []
    for toks, shape in seqs:
        exp = rp.recognise(toks)
        if exp[0] == "undetermined":
            sh.count_in("undetermined (not judged)", exp[1])
            continue
        for variant in range(2):
            text = rp.render(toks, rng, plain=(variant == 0))
            cases.append((text, exp, {"shape": shape, "nontrivial": True}))
        sh.count_in("enumerated_chains", exp[0])
        if len(cases) >= 400:
            judge_batch(sh, w, cases)
            cases = []
    judge_batch(sh, w, cases)
    if spec["idx"] == 0:
        sh.sample({"monitor": "E", "example": rp.render(seqs[5][0], None, True), "reference": rp.recognise(seqs[5][0])})


# ---------------------------------------------------------------------------------------------
# T and M: random trees and mutations

ALPHABET = [op(x) for x in ["(", ")", "[", "]", ",", "+", "-", "*", "/", "^", "->", "|>", "||", "&&", "!", "<", "<=", "==", "!=", ">",
                            ".", "?", "{", "}", ":", "="]] + \
           [("kw", x) for x in ["per", "if", "then", "else", "true", "NaN", "to_"[:2]]] + \
           [("id", "a"), ("id", "f"), ("num", (3.0, "3")), ("num", (0.5, ".5")), ("basenum", (255.0, "0xff")), ("str", "s"),
            ("upow", 2), ("upow", -1)]


def mutate(rng, toks):
    toks = list(toks)
    for _ in range(rng.choice([1, 1, 1, 2, 3])):
        r = rng.random()
        if r < 0.3 and len(toks) > 1:
            del toks[rng.randrange(len(toks))]
        elif r < 0.6:
            toks.insert(rng.randrange(len(toks) + 1), rng.choice(ALPHABET))
        elif r < 0.8 and len(toks) > 1:
            i = rng.randrange(len(toks) - 1)
            toks[i], toks[i + 1] = toks[i + 1], toks[i]
        elif toks:
            toks[rng.randrange(len(toks))] = rng.choice(ALPHABET)
    return toks


def fix_to(tok):
    # the keyword `to` is the conversion operator
    return op("->") if tok == ("kw", "to") else tok


def run_rand(sh, spec):
    w = get_worker()
    rng = rng_for(spec["seed"], "C10", spec["idx"])
    cases = []
    per = spec["trees"] // spec["n"]
    for k in range(per):
        tree = gen_tree(rng, rng.choice([1, 2, 2, 3, 3, 4, 5, 6]))
        want = rp.desugar(tree)
        try:
            toks = rp.to_tokens(tree, 0, rng, rng.choice([0.0, 0.0, 0.1, 0.3]))
        except ValueError:
            sh.count("generator_discard")
            continue
        has_istr = False
        ref = rp.recognise(toks)
        if True:
            if ref[0] == "undetermined":
                sh.count_in("undetermined (not judged)", ref[1])
                continue
            if ref != ("ok", want):
                # renderer and recogniser (two transcriptions of the same documents) disagree: the harness' problem
                sh.count("renderer/recogniser disagreement (discarded, harness self-check)")
                continue
        text = rp.render(toks, rng)
        if rng.random() < 0.05:
            text += "  # trailing comment"
        cases.append((text, ("ok", want), {"shape": tree[0], "nontrivial": nops(want) >= 2}))
        if k % 400 == 0:
            sh.sample({"monitor": "T", "text": text, "tree": json.dumps(want)[:300]})
        # M: mutate the same token sequence
        if not has_istr:
            for _ in range(max(1, spec["mut"] // spec["trees"])):
                m = [fix_to(t) for t in mutate(rng, toks)]
                ref = rp.recognise(m)
                if ref[0] == "undetermined":
                    sh.count_in("undetermined (not judged)", ref[1])
                    continue
                mt = rp.render(m, rng, plain=rng.random() < 0.5)
                cases.append((mt, ref, {"shape": "mutant", "nontrivial": len(m) >= 4}))
                sh.count_in("mutants", ref[0])
        if len(cases) >= 300:
            judge_batch(sh, w, cases)
            cases = []
    judge_batch(sh, w, cases)


def run_shard(sh, spec):
    try:
        {"enum": run_enum, "rand": run_rand}[spec["kind"]](sh, spec)
    except (WorkerDied, WorkerTimeout) as e:
        sh.inconclusive_case(f"harness exception: worker died while parsing: {e}")
        get_worker().restart()


def replay(sh, case):
    w = get_worker()
    r = w.call({"op": "parse", "codes": [case["text"]]})["res"][0]
    print("input:    ", case["text"])
    print("numbat:   ", json.dumps(r)[:600])
    print("reference:", json.dumps(case["expected"])[:600])
    sh.judged()
    exp = case["expected"]
    if exp[0] == "ok" and (not r.get("ok") or r.get("stmts") != [["expr", exp[1]]]):
        sh.violation(case, "parser disagrees with the documented grammar/precedence")
    if exp[0] == "reject" and r.get("ok"):
        sh.violation(case, "input outside the documented grammar is accepted")


LEVEL_TEXT = ("Exploration with an enumerated core: every parenthesis-free chain of two (decorated operands) and three binary "
              "operators and every operator position around conditionals, plus seeded random expression trees rendered with "
              "minimal/redundant parentheses and documented spellings, plus token-level mutants. The real parser's syntax tree "
              "(exported through the hook) is compared with an independent recogniser transcribed from the documented grammar "
              "and precedence table: same accept/reject decision, same tree.")
LEVEL_NOTE = ("Trusted: the reference recogniser; cases where grammar header and book disagree or are silent are counted as "
              "undetermined and not judged. Expression statements on one line only.")
TECHNIQUE = "runtime monitoring: differential monitor of the hooked parser tree against a reference parser over enumerated and generated inputs"
