#!/usr/bin/env python3
"""tools/nb.py 'code1' 'code2' ... : evaluate inputs one after another in one prelude session; show echo/type/value"""
import sys, os, json
sys.path.insert(0, os.path.dirname(os.path.dirname(os.path.abspath(__file__))))
from vf.core import Worker
w = Worker()
sid = w.fork("p")
for code in sys.argv[1:]:
    r = w.eval(sid, code, stmts=True)
    if r.get("ok"):
        for s in r.get("stmts", []):
            print(f"  echo: {s.get('pretty')!r}   type: {json.dumps(s.get('type'))[:150]}")
        print(f"{code!r} => {r.get('val_text')!r}  prints={r.get('prints')}")
    else:
        print(f"{code!r} => {r.get('status')} {r.get('stage')}/{r.get('kind')}: {(r.get('msg') or str(r.get('panic')))[:300]}")
w.close()
