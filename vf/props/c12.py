"""C12 — addition commutes, subtraction anti-commutes, units included."""
import itertools
import math

from ..core import get_worker, rng_for, qval, WorkerDied, WorkerTimeout
from ..unitdb import load_unitdb, rel_close, nmul, nadd, exact, sunit_key, to_dec
from ..gen import UnitPool, EvalSession, plit, atom_uexpr

LEVEL = "exploration"
RULE = ("every ordered pair (a, b) of mutually convertible prelude units, each written with its primary name or a "
        "seeded random accepted prefix, x magnitude pairs {(1,1),(40.5,-3),(0,2.5),(2.5,0),(0,0),(1e-7,2.5e12),(-3,-3)}: "
        "`A+B`, `B+A`, `A-B`, `B-A` (value vs exact model; identical display when sizes differ and not both zero; "
        "exact negation for subtraction); plus one three-operand sum per pair in all 6 orders. "
        "distinct = (A text, B text); non-trivial = units differ in size and not both operands zero")
EXHAUSTIVE = {"quick": False, "thorough": False}
FLOOR = {"quick": 3000, "thorough": 10000}
ASSUMPTIONS = ["equal-size different units (cd vs lm) may legitimately display in the left operand's unit (exempt by the property)",
               "value agreement = relative 1e-9 in base units, absolute floor for catastrophic cancellation: 1e-9 of the larger operand"]
NSHARDS = 16
MAGS = [(1.0, 1.0), (40.5, -3.0), (0.0, 2.5), (2.5, 0.0), (0.0, 0.0), (1e-7, 2.5e12), (-3.0, -3.0)]


def shards(tier, seed):
    reps = 1 if tier == "quick" else 4
    return [{"idx": i, "n": NSHARDS, "seed": seed, "reps": reps} for i in range(NSHARDS)]


def close_sum(got, expect, scale):
    """|got-expect| <= 1e-9 * max(|operands|) — robust under cancellation"""
    if isinstance(got, float) or isinstance(expect, float):
        return rel_close(got, expect)
    d = abs(to_dec(got) - to_dec(expect))
    return d <= to_dec(scale) * to_dec(exact(1e-9))


def num_unit(text):
    """split displayed 'number unit' (unit may be empty)"""
    parts = text.strip().split(" ", 1)
    return parts[0], (parts[1] if len(parts) > 1 else "")


def run_pair(sh, es, db, A, B, va, vb, fa, fb, x, y):
    codes = [f"({A}) + ({B})", f"({B}) + ({A})", f"({A}) - ({B})", f"({B}) - ({A})"]
    rs = es.batch(codes)
    case = {"A": A, "B": B, "codes": codes}
    sh.judged(4)
    for c, r in zip(codes, rs):
        if r.get("status") == "panic" or not r.get("ok"):
            sh.violation(case, f"`{c}` fails: {r.get('stage')}/{r.get('kind')}: {r.get('msg') or r.get('panic')}")
            return
    ab, ba, amb, bma = [r["value"] for r in rs]
    scale = max(abs(va), abs(vb))
    probs = []
    s_model = nadd(va, vb)
    d_model = nadd(va, -vb)
    if not close_sum(db.base_value(ab), s_model, scale):
        probs.append(f"A+B = {ab['text']} differs from the model sum {float(s_model)!r} (base units)")
    if not close_sum(db.base_value(ba), s_model, scale):
        probs.append(f"B+A = {ba['text']} differs from the model sum {float(s_model)!r} (base units)")
    if not close_sum(db.base_value(amb), d_model, scale):
        probs.append(f"A-B = {amb['text']} differs from the model difference {float(d_model)!r}")
    if not close_sum(db.base_value(bma), -d_model, scale):
        probs.append(f"B-A = {bma['text']} differs from the model difference {float(-d_model)!r}")
    differ = not rel_close(fa, fb, 1e-9)
    both_zero = x == 0 and y == 0
    if differ and not both_zero:
        if rs[0]["val_text"] != rs[1]["val_text"]:
            probs.append(f"A+B displays {rs[0]['val_text']!r} but B+A displays {rs[1]['val_text']!r}")
        if sunit_key(ab["unit"]) != sunit_key(ba["unit"]):
            probs.append(f"A+B is in {ab['unit_text']!r} but B+A is in {ba['unit_text']!r}")
        if sunit_key(amb["unit"]) != sunit_key(bma["unit"]):
            probs.append(f"A-B is in {amb['unit_text']!r} but B-A is in {bma['unit_text']!r}")
        elif qval(amb) != -qval(bma) and not (qval(amb) == 0 and qval(bma) == 0):
            probs.append(f"A-B = {amb['text']} is not the exact negation of B-A = {bma['text']}")
        sh.nontrivial(A, B)
    if probs:
        sh.violation(case, f"A=`{A}`, B=`{B}`: " + "; ".join(probs))


def run_triple(sh, es, db, terms):
    """terms = [(text, base value, factor)] x3; all 6 orders"""
    orders = list(itertools.permutations(range(3)))
    codes = [" + ".join(f"({terms[i][0]})" for i in o) for o in orders]
    rs = es.batch(codes)
    case = {"codes": codes}
    sh.judged(6)
    for c, r in zip(codes, rs):
        if r.get("status") == "panic" or not r.get("ok"):
            sh.violation(case, f"`{c}` fails: {r.get('msg') or r.get('panic')}")
            return
    model = nadd(nadd(terms[0][1], terms[1][1]), terms[2][1])
    scale = max(abs(t[1]) for t in terms)
    fs = [t[2] for t in terms]
    all_differ = all(not rel_close(fs[i], fs[j], 1e-9) for i in range(3) for j in range(i + 1, 3))
    nonzero = all(t[1] != 0 for t in terms)
    # A partial sum that is (numerically) zero is dimension-free by numbat's zero convention and
    # legitimately drops its unit: `0 + c` is displayed as `c`. The property demands a common
    # unit only for non-zero operands, so such triples are judged by value only.
    for i in range(3):
        for j in range(i + 1, 3):
            if close_sum(nadd(terms[i][1], terms[j][1]), exact(0.0), max(abs(terms[i][1]), abs(terms[j][1])) * 1000):
                nonzero = False
    probs = []
    for c, r in zip(codes, rs):
        if not close_sum(db.base_value(r["value"]), model, scale):
            probs.append(f"`{c}` = {r['value']['text']} differs from the model sum {float(model)!r}")
    if all_differ and nonzero:
        units = {sunit_key(r["value"]["unit"]) for r in rs}
        if len(units) != 1:
            probs.append("the six orders are displayed in different units: "
                         + ", ".join(sorted({r["value"]["unit_text"] for r in rs})))
        nums = []
        for r in rs:
            n, _ = num_unit(r["val_text"])
            nums.append(float(n.replace("_", "")))
        if max(nums) - min(nums) > 2e-5 * max(abs(n) for n in nums):
            probs.append(f"the six orders display different numbers: {sorted(set(r['val_text'] for r in rs))}")
        sh.nontrivial("triple", *[t[0] for t in terms])
    if probs:
        sh.violation(case, "; ".join(probs[:4]))


def run_shard(sh, spec):
    w = get_worker()
    db = load_unitdb(w)
    pool = UnitPool(db)
    es = EvalSession(w, refresh=300)
    pairs = pool.ordered_pairs()
    rng = rng_for(spec["seed"], "C12", spec["idx"])
    for rep in range(spec["reps"]):
        for i, (a, b) in enumerate(pairs):
            if i % spec["n"] != spec["idx"]:
                continue
            if rep == 0 and rng.random() < 0.5:
                sa, sb = pool.primary(a), pool.primary(b)
            else:
                sa, sb = pool.random_spelling(rng, a, 0.7), pool.random_spelling(rng, b, 0.7)
            ua, ub = atom_uexpr(db, sa), atom_uexpr(db, sb)
            try:
                for x, y in MAGS:
                    A, B = f"{plit(x)} {sa.text}", f"{plit(y)} {sb.text}"
                    run_pair(sh, es, db, A, B, nmul(exact(x), ua.factor), nmul(exact(y), ub.factor),
                             ua.factor, ub.factor, x, y)
                c = pool.sibling(rng, a)
                sc = pool.random_spelling(rng, c, 0.5)
                uc = atom_uexpr(db, sc)
                xs = [rng.choice([1.0, 2.5, 40.5, -3.0, 7.0]) for _ in range(3)]
                terms = [(f"{plit(xs[0])} {sa.text}", nmul(exact(xs[0]), ua.factor), ua.factor),
                         (f"{plit(xs[1])} {sb.text}", nmul(exact(xs[1]), ub.factor), ub.factor),
                         (f"{plit(xs[2])} {sc.text}", nmul(exact(xs[2]), uc.factor), uc.factor)]
                run_triple(sh, es, db, terms)
                if i % 211 == 0:
                    sh.sample({"A": f"40.5 {sa.text}", "B": f"-3 {sb.text}"})
            except (WorkerDied, WorkerTimeout) as e:
                sh.violation({"a": a, "b": b}, f"interpreter crashed/hung adding {a} and {b}: {e}")
                w.restart()
                es.reset()
    es.close()


def replay(sh, case):
    w = get_worker()
    sid = w.fork("p")
    for c in case.get("codes", []):
        r = w.eval(sid, c, stmts=False)
        print(c, "=>", r.get("val_text") or r.get("msg"))
    print("(replay prints the observations; judging needs the generator's model values — rerun the tier with the same seed)")


LEVEL_TEXT = ("Exploration with an exhaustive core over all ordered pairs of convertible prelude units (with prefixes): the "
              "real interpreter evaluates both operand orders of + and - (and all six orders of a three-operand sum); a "
              "monitor compares values against an exact-rational model and the displayed unit/number across orders.")
LEVEL_NOTE = ("Trusted: UnitDB model; 1e-9 tolerance relative to the larger operand (cancellation-safe); equal-size units are "
              "exempt from the display requirement as the property states.")
TECHNIQUE = "runtime monitoring: metamorphic order-permutation monitor over exhaustive unit pairs + exact reference model"
