"""Kind confusion: every statement / expression construct of the language with operands of every kind of value.

The type checker is what keeps lists, strings, booleans, dates, functions and structs away from code that expects a
quantity (and vice versa). A construct whose operand kind the checker forgets to constrain shows up as a panic in the
compiler or the VM (`unit u = [1, 2, 3]`), which random text mutation only finds by luck. This module enumerates the
product construct x operand kind exhaustively; the inputs are tiny, so the whole table is run in both tiers.
"""

# definitions every input starts with (one input = these statements + the construct)
PRELUDE = ('struct VfkS { a: Scalar, b: Length }\n'
           'let vfk_s = VfkS { a: 1, b: 2 m }\n'
           'fn vfk_id(x) = x\n'
           'fn vfk_len(x: Length) -> Length = x\n'
           'fn vfk_two(x, y) = x\n'
           '7 m\n')

# (kind, spellings) — the first spelling of each kind is its representative in two-hole constructs
OPERANDS = [
    ("scalar", ["2", "(-1.5)", "0", "inf", "NaN", "1e308", "0x1F"]),
    ("quantity", ["3 m", "(2 s)", "(0 m)", "5 km/h", "(inf m)", "20 °C"]),
    ("unit", ["m", "meter", "km", "percent", "°C"]),
    ("bool", ["true", "(1 < 2)", "false"]),
    ("string", ['"s"', '"a{1}b"', '""', '"{3 m}"']),
    ("list", ["[1, 2]", "[]", "[3 m]", '["a"]', "[[1]]", "[true]", "[now()]", "[sin]", "[vfk_s]"]),
    ("datetime", ["now()", 'datetime("2020-01-01 00:00:00 UTC")', "today()"]),
    ("function", ["sin", "sqrt", "vfk_id", "vfk_len", "vfk_two", "now", "len", "str_length", "map"]),
    ("procedure", ["print", "assert", "assert_eq", "type"]),
    ("struct", ["vfk_s", "VfkS { a: 1, b: 2 m }", "VfkS {a: 1, b: 2 m}.b"]),
    ("struct name", ["VfkS"]),
    ("type name", ["Length", "Scalar", "String", "Bool"]),
    ("last result", ["ans", "_"]),
    ("hole", ["?"]),
    ("call", ["vfk_id(1)", "vfk_id(\"s\")", "vfk_id([1])", "vfk_id(sin)", "vfk_two(true, 1)", "random()", "element(\"H\")"]),
    ("conditional", ["(if true then 1 else 2)", "(if true then \"a\" else \"b\")", "(if true then [1] else [])"]),
    ("keyword", ["unit", "fn", "let", "where", "to", "per"]),
    ("nothing", [""]),
]

ONE_HOLE = [
    # definitions
    "unit vfk_u = X", "unit vfk_u: Length = X", "unit vfk_u: Scalar = X", "@metric_prefixes\nunit vfk_u = X",
    "@aliases(vfk_a: short)\nunit vfk_u = X", "@name(X)\nunit vfk_u = 2 m", "@aliases(X)\nunit vfk_u = 2 m", "@url(X)\nunit vfk_u = 2 m",
    "@name(\"n\")\n@url(\"u\")\n@description(X)\nlet vfk_v = 1", "@example(X)\nfn vfk_f(p) = p", "@X\nunit vfk_u = 2 m",
    "unit vfk_u = X\n2 vfk_u -> m", "unit vfk_u = X\nvfk_u + vfk_u", "unit vfk_u = X\nunit vfk_w = 2 vfk_u\n3 vfk_w",
    "let vfk_v = X", "let vfk_v = X\nvfk_v", "let vfk_v = X\nvfk_v + vfk_v", "let vfk_v = X\n\"{vfk_v}\"", "let vfk_v: Length = X",
    "let vfk_v: Scalar = X", "let vfk_v: String = X", "let vfk_v: Bool = X", "let vfk_v: DateTime = X", "let vfk_v: List<Scalar> = X",
    "let vfk_v: List<Length> = X", "let vfk_v: VfkS = X", "let vfk_v: Fn[(Scalar) -> Scalar] = X", "let vfk_v: Fn[() -> DateTime] = X",
    "let vfk_v: X = 1", "let vfk_v: List<X> = []", "let X = 1", "let vfk_v: Length^X = 1",
    "fn vfk_f() = X", "fn vfk_f() = X\nvfk_f()", "fn vfk_f(p) = X", "fn vfk_f(p) = X\nvfk_f(1)", "fn vfk_f(p) = X\nvfk_f(2 m)",
    "fn vfk_f(p: Length) -> Time = X", "fn vfk_f(p) -> String = X", "fn vfk_f(p) -> Bool = X", "fn vfk_f(p) = p + X", "fn vfk_f(p) = p * X",
    "fn vfk_f(p) = q where q = X", "fn vfk_f(p) = q where q = X\nvfk_f(1)", "fn vfk_f(p) = q where q: Length = X", "fn vfk_f(p: X) = p",
    "fn vfk_f(p) -> X = p", "fn vfk_f<X>(p) = p", "fn vfk_f<T: X>(p: T) = p", "fn vfk_f(X) = 1", "fn X(p) = p", "fn vfk_f(p, p2: X) = p",
    "fn vfk_f(p) = X(p)", "fn vfk_f(p) = X(p)\nvfk_f(1)", "fn vfk_f(p) = p(X)", "fn vfk_f(p) = p(X)\nvfk_f(sin)", "fn vfk_f(p) = p(X)\nvfk_f(vfk_id)",
    "fn vfk_f(p) = vfk_f(X)", "fn vfk_f(p: List<X>) = p",
    "dimension VfkD = X", "dimension VfkD = Length * X", "dimension X", "dimension VfkD = Length^X",
    "struct VfkT { a: X }", "struct VfkT { a: Scalar }\nVfkT { a: X }", "struct VfkT { X: Scalar }", "struct X { a: Scalar }",
    "struct VfkT { a: List<X> }", "struct VfkT { f: Fn[(Scalar) -> Scalar] }\nVfkT { f: X }", "struct VfkT { f: Fn[(Scalar) -> Scalar] }\nVfkT { f: X }.f(1)",
    "use X", "use core::X",
    # calls
    "vfk_id(X)", "vfk_len(X)", "vfk_two(X, 1)", "vfk_two(1, X)", "vfk_id(vfk_id)(X)", "vfk_id(X)(1)", "vfk_id(X)(X)",
    "fn vfk_g<T>(p: T) -> T = p\nvfk_g(X)", "fn vfk_g<T: Dim>(p: T) -> T = p\nvfk_g(X)", "fn vfk_g<T: Dim>(p: T) -> T^2 = p * p\nvfk_g(X)",
    "fn vfk_g<T>(p: List<T>) -> T = head(p)\nvfk_g(X)", "fn vfk_g<T>(p: List<T>) -> T = head(p)\nvfk_g([X])",
    "fn vfk_g(f: Fn[(Scalar) -> Scalar]) = f(1)\nvfk_g(X)", "fn vfk_g<T>(f: Fn[(T) -> T], p: T) = f(p)\nvfk_g(X, X)",
    "X(1)", "X()", "X(1, 2)", "X(X)", "X(\"s\")", "X([1])", "X(sin)", "1 |> X", "X |> sin", "X |> vfk_id |> vfk_id", "(X)(2)", "2 X", "X 2", "X m", "X X",
    # unary / postfix
    "-X", "!X", "X!", "X!!", "X²", "X⁻¹", "+X", "(X)", "-(-X)", "X.a", "X.b", "X.zz", "X.a.b", "X.0",
    # conversions
    "X -> m", "X -> s", "3 m -> X", "X -> X", "X to km", "X -> [m, cm]", "X -> sin", "X -> vfk_id", "X -> \"s\"", "X -> hex", "X -> tz(\"UTC\")",
    "X -> unit_of(X)", "now() -> X", "X -> local", "X -> unixtime",
    # collections / conditionals / strings
    "[X]", "[X, 1]", "[1, X]", "[X, X]", "[[X], [1]]", "[X, \"a\"]", "[X, [X]]", "if X then 1 else 2", "if true then X else 1", "if false then 1 else X",
    "if true then X else X", "if X then X else X", "\"{X}\"", "\"{X:>10}\"", "\"{X:.3f}\"", "\"{X:x}\"", "\"{X:e}\"", "\"{X:?}\"", "\"{X:}\"", "\"a{X}b{X}c\"",
    "\"{\"{X}\"}\"", "\"{X:>X}\"",
    "VfkS { a: X, b: 2 m }", "VfkS { a: 1, b: X }", "VfkS { a: X }", "VfkS { a: 1, b: 2 m, c: X }", "VfkS { a: 1, a: X, b: 2 m }", "VfkS { X: 1, b: 2 m }",
    "X { a: 1, b: 2 m }", "VfkS { a: 1, b: 2 m }.X",
    # procedures
    "print(X)", "print(X, X)", "print()", "assert(X)", "assert_eq(X, X)", "assert_eq(X, 1)", "assert_eq(1 m, X)", "assert_eq(X, X, X)",
    "assert_eq(1 m, 2 m, X)", "assert_eq(X, 2 m, 1 cm)", "type(X)", "type(X, X)", "assert(X, X)", "let vfk_v = print(X)", "[print(X)]", "print(print)",
    "assert_eq(1, 2, X)", "assert_eq(1, 1 + 1e-9, X)",
    # library functions that look at the kind of their argument
    "len(X)", "head(X)", "tail(X)", "cons(X, [])", "cons(1, X)", "cons_end(X, [1])", "concat(X, [1])", "is_empty(X)", "sum(X)", "mean(X)", "maximum(X)",
    "sort(X)", "reverse(X)", "map(X, [1, 2])", "map(sin, X)", "filter(X, [1, 2])", "foldl(X, 0, [1, 2])", "foldl(vfk_two, X, [1, 2])", "sort_by_key(X, [2, 1])",
    "unit_of(X)", "value_of(X)", "has_unit(X, m)", "has_unit(3 m, X)", "is_dimensionless(X)", "quantity_cast(X, m)", "quantity_cast(3 m, X)", "unit_list([m, cm], X)",
    "unit_list(X, 1 m)", "str_length(X)", "str_slice(0, 1, X)", "str_append(X, \"a\")", "str_find(X, \"a\")", "lowercase(X)", "chr(X)", "ord(X)", "parse(X)",
    "hex(X)", "base(X, 10)", "base(16, X)", "format_datetime(X, now())", "format_datetime(\"%Y\", X)", "datetime(X)", "date(X)", "tz(X)", "unixtime(X)",
    "from_unixtime(X)", "calendar_add(now(), X)", "calendar_add(X, 1 day)", "weekday(X)", "julian_date(X)", "human(X)", "is_nan(X)", "is_infinite(X)",
    "sqrt(X)", "sqr(X)", "abs(X)", "round(X)", "floor_in(m, X)", "round_in(X, 3 m)", "mod(X, 2)", "mod(7 m, X)", "atan2(X, 1)", "exp(X)", "ln(X)", "gamma(X)",
    "max(X, 1)", "min(1 m, X)", "clamp(X, 0, 1)", "random()", "rand_uniform(X, 1)", "element(X)", "error(X)", "str(X)", "to_string(X)", "diff(X, vfk_id)",
    "diff(vfk_id, X)", "root_bisect(X, 0, 1, 0.1, 0.1)", "dsolve_runge_kutta(X, 0, 1, 1, 10)", "fixed_point(X, 1, 0.1)", "celsius(X)", "from_celsius(X)",
    "unit_name(X)", "trim(X)", "lines(X)", "split(X, \",\")", "join(X, \",\")", "join([\"a\"], X)", "range(X, 3)", "range(0, X)", "linspace(0, 1, X)", "take(X, [1, 2])",
    "element_at(X, [1, 2])", "replicate(X, 1)", "contains(X, [1])", "unique(X)", "intersperse(X, [1, 2])", "minimum(X)", "variance(X)", "median(X)", "product(X)",
    "stdev(X)", "cumsum(X)", "zip(X, [1])" , "cross(X, [1, 2, 3])", "dot(X, [1])", "norm(X)", "percentile(X, 50)", "sigmoid(X)", "bin(X)", "oct(X)", "dec(X)",
    # statements in sequence: a failing construct after / before ordinary ones
    "X", "X\nX", "X; 1", "1\nX\nans", "X\nans", "X\n_ + 1", "X\nans(1)", "X\nans.a", "X\n\"{ans}\"", "X\nlet vfk_v = ans\nvfk_v", "X # comment", "X\n\nX\n",
]

TWO_HOLE_OPS = ["+", "-", "*", "/", "^", "**", "per", "->", "to", "<", "<=", ">", ">=", "==", "!=", "&&", "||", "|>", "×", "÷", "⋅", "·", "≤", "≠", "➞", ""]
TWO_HOLE = ["if X then Y else Y", "if X then Y else X", "if true then X else Y", "[X, Y]", "X(Y)", "X(Y, Y)", "assert_eq(X, Y)", "assert_eq(X, Y, Y)",
            "assert_eq(X, X, Y)", "VfkS { a: X, b: Y }", "vfk_two(X, Y)", "map(X, Y)", "filter(X, Y)", "foldl(X, Y, Y)", "foldl(X, Y, [1, 2])", "cons(X, Y)",
            "concat(X, Y)", "has_unit(X, Y)", "quantity_cast(X, Y)", "unit_list(X, Y)", "mod(X, Y)", "max(X, Y)", "str_append(X, Y)", "format_datetime(X, Y)",
            "calendar_add(X, Y)", "round_in(X, Y)", "floor_in(X, Y)", "atan2(X, Y)", "let vfk_v = X\nvfk_v(Y)", "let vfk_v = X\nvfk_v + Y", "let vfk_v = X\nY -> vfk_v",
            "fn vfk_f(p) = p + X\nvfk_f(Y)", "fn vfk_f(p) = p(X)\nvfk_f(Y)", "fn vfk_f(p) = X\nvfk_f(Y)", "fn vfk_f(p: List<Length>) = X\nvfk_f(Y)",
            "unit vfk_u = X\nY vfk_u", "unit vfk_u = X\nY -> vfk_u", "unit vfk_u = X\nvfk_u -> Y", "X -> Y -> X", "(X, Y)", "X.a + Y", "\"{X}{Y}\"", "\"{X:Y}\"",
            "sort_by_key(X, Y)", "element_at(X, Y)", "take(X, Y)", "range(X, Y)", "str_slice(X, Y, \"abc\")", "base(X, Y)", "join(X, Y)", "split(X, Y)", "diff(X, Y)",
            "percentile(X, Y)", "zip(X, Y)", "dot(X, Y)", "cross(X, Y)", "contains(X, Y)", "replicate(X, Y)", "intersperse(X, Y)", "cons_end(X, Y)"]


# decorators x statement kinds (most combinations are meaningless and must be refused, not crash)
DECORATORS = ["@metric_prefixes", "@binary_prefixes", "@aliases(vfk_a)", "@aliases(vfk_a: short, vfk_b: long, vfk_c: none, vfk_d: both)",
              "@aliases()", "@aliases(vfk_a: short, vfk_a: long)", "@aliases(m)", "@name(\"n\")", "@url(\"u\")", "@description(\"d\")",
              "@description(\"d\")\n@description(\"e\")", "@example(\"1 + 1\")", "@example(\"1 +\", \"broken\")", "@example(\"vfk_u\", \"self\")",
              "@metric_prefixes\n@metric_prefixes", "@metric_prefixes\n@binary_prefixes", "@abbreviation", "@name(\"a\")\n@name(\"b\")"]
DECORATED = ["unit vfk_u", "unit vfk_u = 2 m", "unit vfk_u: Length", "unit vfk_u: Length = 2 m", "let vfk_v = 1", "let vfk_v: Length = 1 m",
             "fn vfk_f() = 1", "fn vfk_f(p) = p", "dimension VfkD", "dimension VfkD = Length^2", "struct VfkT { a: Scalar }", "use core::scalar",
             "1 + 1", "print(1)", "unit vfk_u = 2 m\n3 kilovfk_u -> vfk_a", "unit vfk_u = 2 m\n3 kibivfk_u + 1 vfk_b", "unit vfk_u\n1 vfk_c",
             "unit vfk_u = 2 m\ninfo_placeholder"]

# names x defining forms: every way of introducing a name, with fresh names and names that already mean something
NAMES = ["vfk_new", "m", "meter", "km", "kilo", "K", "sin", "print", "assert_eq", "type", "ans", "_", "Length", "Scalar", "String", "VfkS", "vfk_s",
         "vfk_id", "pi", "true", "inf", "NaN", "unit", "if", "°C", "celsius", "x", "a", "T", "Dim", "core", "__x", "ſ", "m2", "m²", "µm", "e", "per"]
DEFINING_FORMS = ["let N = 1", "let N: Length = 1 m", "let N = 1\nN", "let N = 1\nlet N = 2\nN", "let N = 1\nfn N() = 2", "fn N() = 1\nlet N = 2\nN",
                  "fn N() = 1", "fn N() = 1\nN()", "fn N(x) = x\nN(1)\nN", "fn vfk_f(N) = N\nvfk_f(1)", "fn vfk_f(N, N) = N", "fn vfk_f(N: Length) -> Length = N\nvfk_f(1 m)",
                  "fn vfk_f(p) = N where N = p\nvfk_f(1)", "fn vfk_f(p) = N where N = 1 and N = 2", "fn vfk_f<N>(p: N) = p\nvfk_f(1)", "fn vfk_f<N: Dim>(p: N) -> N = p\nvfk_f(1 m)",
                  "fn vfk_f<N, N>(p: N) = p", "unit N", "unit N\n2 N", "unit N = 2 m\n3 N -> m", "unit N: Length\n1 N + 1 m", "unit N = 2 m\nunit N = 3 m",
                  "@aliases(N)\nunit vfk_q = 2 m\n1 N", "@metric_prefixes\n@aliases(N: short)\nunit vfk_q = 1 m\n1 kN + 1 kilovfk_q",
                  "@metric_prefixes\nunit N = 1 m\n1 kiloN", "@metric_prefixes\n@aliases(N: short)\nunit vfk_q = 1 m\nlet kN = 2\nkN",
                  "dimension N", "dimension N = Length", "dimension N = Length\nlet vfk_v: N = 1 m", "dimension N\nunit vfk_q: N\n1 vfk_q", "dimension N\ndimension N",
                  "struct N { a: Scalar }", "struct N { a: Scalar }\nN { a: 1 }.a", "struct VfkT { N: Scalar }\nVfkT { N: 1 }.N", "struct VfkT { N: Scalar, N: Scalar }",
                  "struct N { a: Scalar }\nstruct N { b: Scalar }", "N", "N = 1", "N(1)", "1 N", "N -> N", "let vfk_v: N = 1", "use N", "N.N", "N { N: N }", "\"{N}\"",
                  "let N = 1\n\"{N}\"", "fn N(N) = N\nN(N)", "let vfk_v = 1\nlet N = vfk_v\nunit vfk_q = N m\n1 vfk_q"]


def representatives():
    """operand spellings used in two-hole constructs: one or two per kind"""
    out = []
    for kind, sp in OPERANDS:
        if kind in ("keyword", "nothing", "type name"):
            continue
        out.append((kind, sp[0]))
    out += [("list", "[]"), ("list", "[3 m]"), ("function", "vfk_id"), ("scalar", "0"), ("quantity", "(0 m)"), ("string", '""'),
            ("call", "vfk_id(sin)")]
    return out


def all_inputs():
    """yields (construct, kinds, code)"""
    for c in ONE_HOLE:
        for kind, sps in OPERANDS:
            for sp in sps:
                yield c, kind, PRELUDE + c.replace("X", sp)
    reps = representatives()
    for op in TWO_HOLE_OPS:
        for ka, a in reps:
            for kb, b in reps:
                yield f"X {op} Y", f"{ka},{kb}", PRELUDE + (f"{a} {op} {b}" if op else f"{a} {b}")
    for c in TWO_HOLE:
        for ka, a in reps:
            for kb, b in reps:
                yield c, f"{ka},{kb}", PRELUDE + c.replace("X", a).replace("Y", b)
    for d in DECORATORS:
        for st in DECORATED:
            yield "decorator x statement", "decorated,statement", PRELUDE + d + "\n" + st
    for form in DEFINING_FORMS:
        for name in NAMES:
            yield form, "name,form", PRELUDE + form.replace("N", name)
