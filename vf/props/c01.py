"""C01 — accepted programs never go wrong dimensionally at run time (dimension trace)."""
import json
import math

from ..core import get_worker, rng_for, qval, WorkerDied, WorkerTimeout
from ..unitdb import load_unitdb, type_dim, dim_text
from ..gen import UnitPool
from ..gen_prog import ProgGen

LEVEL = "exploration"
RULE = ("seeded random well-typed programs (1-6 statements over the prelude: arithmetic with prefixes, powers with integer / "
        "fractional / composite constant exponents, unit and dimension definitions, concrete, generic, inferred and "
        "where-clause functions, conditionals, structs, lists, library generics, uses of `ans`/`_`) executed with the VM event "
        "trace on; half of the programs are also offered with one equality site replaced by another dimension — the checker "
        "should reject those (C02's question), and any that it accepts is judged like every accepted program. "
        "Monitor: every traced operator result, every argument and return value of a numbat-level call and every foreign-"
        "function result is matched by source span to the typed-AST node that produced it and its unit's dimension "
        "(UnitDB, computed from unit definitions) must equal the node's static type; raw values of defined globals, struct "
        "fields and list elements are checked against their declared/inferred types; a run-time failure must be one of the "
        "documented value-dependent kinds, never a unit-incompatibility. distinct = program text; non-trivial = at least "
        "one traced value of non-scalar dimension was matched to a node")
EXHAUSTIVE = {"quick": False, "thorough": False}
FLOOR = {"quick": 800, "thorough": 15000}
ASSUMPTIONS = ["a zero magnitude satisfies a dimension obligation when it carries no unit or a unit of the expected dimension "
               "(numbat's documented polymorphic zero)", "values inside generic function bodies are checked at the enclosing "
               "call boundary (their static types are open)"]
NSHARDS = 16
ALLOWED_RUNTIME = ("DivisionByZero", "AssertFailed", "AssertEq2Failed", "AssertEq3Failed", "UserError", "FactorialOfNegativeNumber",
                   "FactorialOfNonInteger", "QuantityError::NonRationalExponent", "EmptyList", "DateParsingError",
                   "UnknownTimezone", "DurationOutOfRange", "DateTimeOutOfRange", "DateFormattingError",
                   "InvalidFormatSpecifiers", "InvalidTypeForFormatSpecifiers", "ChemicalElementNotFound")
WITNESSES = [
    # dedicated stratum for the known findings (they must keep reproducing)
    ("F1", "(m^2)^(0.1+0.2) + m^(3/5)"),
    ("F1", "let vf_w = (3 m^2)^(0.1+0.2)\nvf_w"),
    ("F9", "inf + 1 m"),
    ("F9", "1 m < inf"),
    ("F9", "let vf_x: Length = inf\nvf_x -> km"),
    ("F9", "NaN + 2 s"),
]


def EXPECTED_KNOWN(tier):
    return ["F1", "F9"]


def shards(tier, seed):
    n = 3000 if tier == "quick" else 60000
    return [{"idx": i, "n": NSHARDS, "seed": seed, "count": n // NSHARDS} for i in range(NSHARDS)]


ZERO_ANY_UNIT = [False]     # set while an ill-dimensioned variant is judged


def value_dim_problem(db, value, static_type, what):
    """compare a structured run-time value with a structured static type; returns problem text or None"""
    if value is None or static_type is None:
        return None
    t = static_type.get("t")
    vt = value.get("t")
    if t == "dim":
        if vt != "q":
            return f"{what}: static type is a dimension but the value is {vt}"
        want = type_dim(static_type)
        x = qval(value)
        try:
            got = db.sunit_dim(value["unit"])
        except KeyError:
            return None               # unit defined by an input that was rolled back: not judged
        if got == want:
            return None
        if x == 0 and (not value["unit"] or ZERO_ANY_UNIT[0]):
            # polymorphic zero: a unit-less zero inhabits every dimension; in the ill-dimensioned variants a zero literal
            # next to the replaced site legitimately absorbs the difference (`0 * (1 / inch) + 8 A`: the literal's
            # dimension is whatever makes the sum consistent, the run-time value is `0 in⁻¹`)
            return None
        return (f"{what}: value {value['text']!r} has dimension {dim_text(got)}, the checker inferred "
                f"{dim_text(want)}")
    if t == "list" and vt == "list":
        for i, it in enumerate(value["items"]):
            p = value_dim_problem(db, it, static_type["elem"], f"{what}[{i}]")
            if p:
                return p
        return None
    if t == "struct" and vt == "struct":
        ftypes = dict((n, ty) for n, ty in static_type["fields"])
        for n, v in value["fields"]:
            p = value_dim_problem(db, v, ftypes.get(n), f"{what}.{n}")
            if p:
                return p
        if value.get("nvalues") != value.get("nfields"):
            return f"{what}: struct instance has {value.get('nvalues')} values for {value.get('nfields')} fields"
        return None
    if t == "bool" and vt != "b":
        return f"{what}: static type Bool but value is {vt}"
    if t == "string" and vt != "s":
        return f"{what}: static type String but value is {vt}"
    return None


def check_trace(sh, db, r):
    """returns (problems, number of non-scalar matches)"""
    probs, matched = [], 0
    nodes = {}
    for n in r.get("nodes") or []:
        nodes.setdefault((tuple(n["span"]), n["k"]), n)
    for ev in r.get("events") or []:
        span = tuple(ev["span"])
        if ev["e"] == "op":
            n = nodes.get((span, "binop")) or nodes.get((span, "unop"))
            if not n:
                continue
            sh.count_in("events_matched", "op:" + ev["op"])
            p = value_dim_problem(db, ev["value"], n["type"], f"result of {n['x']} at {span[1]}..{span[2]}")
            if n["type"].get("t") == "dim" and n["type"]["base"]:
                matched += 1
            if p:
                probs.append(p)
        elif ev["e"] in ("call",):
            n = nodes.get((span, "call")) or nodes.get((span, "callable"))
            if not n:
                continue
            sh.count_in("events_matched", "call")
            arg_types = n["x"].get("args") or []
            for i, (v, ty) in enumerate(zip(ev["args"], arg_types)):
                p = value_dim_problem(db, v, ty, f"argument {i} of {ev['callee']} at {span[1]}..{span[2]}")
                if ty.get("t") == "dim" and ty["base"]:
                    matched += 1
                if p:
                    probs.append(p)
        elif ev["e"] in ("ret", "ffi"):
            n = nodes.get((span, "call")) or nodes.get((span, "callable"))
            if not n:
                continue
            sh.count_in("events_matched", ev["e"])
            p = value_dim_problem(db, ev["value"], n["type"], f"return value of {ev['callee']} at {span[1]}..{span[2]}")
            if n["type"].get("t") == "dim" and n["type"]["base"]:
                matched += 1
            if p:
                probs.append(p)
        elif ev["e"] == "invalid_opcode":
            probs.append(f"invalid opcode byte {ev['byte']} fetched")
    return probs, matched


def judge(sh, w, db, sid, code, inexact, witness_of=None):
    case = {"code": code, "ill_dimensioned_variant": ZERO_ANY_UNIT[0]}
    r = w.eval(sid, code, trace=True, nodes=True, stmts=True)
    if r.get("status") == "panic":
        sh.count("panics_left_to_C08")
        return
    if not r.get("ok") and r.get("stage") != "runtime":
        sh.count("rejected_statically(C02 judges that)")
        return
    sh.judged()
    if "unit " in code and r.get("ok"):
        try:
            db = load_unitdb(w, sid)      # the program defined units of its own: the model learns their definitions
        except (OverflowError, ValueError, ArithmeticError):
            # a generated unit with a non-finite definition factor (`unit u = (1e200 m)^2 * ...`): outside the model
            sh.count("program defines a unit the exact model cannot represent (not judged)")
            return
    probs, matched = check_trace(sh, db, r)
    if not r.get("ok"):
        kind = r.get("kind") or ""
        if not kind.startswith(ALLOWED_RUNTIME):
            probs.append(f"accepted program fails at run time with {kind}: {r.get('msg')}")
        else:
            sh.count_in("allowed_runtime_errors", kind)
    else:
        # globals against their static types
        lets = [s for s in r.get("stmts") or [] if s.get("kind") == "let"]
        if lets:
            raw = w.call({"op": "raw_global", "sid": sid, "names": [s["name"] for s in lets]})["values"]
            for s in lets:
                p = value_dim_problem(db, raw.get(s["name"]), s.get("type"), f"variable {s['name']}")
                if p:
                    probs.append(p)
                matched += 1 if (s.get("type") or {}).get("t") == "dim" and s["type"]["base"] else 0
        last = (r.get("stmts") or [None])[-1]
        if last and last.get("kind") == "expr" and r.get("value") is not None:
            p = value_dim_problem(db, r["value"], last.get("type"), "final result")
            if p:
                probs.append(p)
        if r.get("events_dropped"):
            sh.count("events_dropped", r["events_dropped"])
    if probs:
        msg = f"`{code}`: " + "; ".join(probs[:3])
        fid = classify(code, probs, inexact, r)
        if fid:
            sh.known_hit(fid, dict(case, problems=probs[:2]))
        else:
            sh.violation(case, msg)
    elif witness_of:
        pass
    if matched:
        sh.nontrivial(code)
    return r


def classify(code, probs, inexact, r):
    """F1: a power of a dimensionful base whose exponent expression is not exact in f64 (0.1+0.2);
       F9: a bare inf/NaN literal used at a non-scalar dimension"""
    import re
    if re.search(r"(?<![A-Za-z_0-9])(inf|NaN)(?![A-Za-z_0-9])", code) and \
            all("IncompatibleUnits" in p or "dimension" in p for p in probs):
        bare = re.search(r"(?<![A-Za-z_0-9.])(inf|NaN)\s*(?![A-Za-z_0-9(*])", code)
        if bare:
            return "F9"
    if inexact and all(("IncompatibleUnits" in p) or ("has dimension" in p) for p in probs):
        return "F1"
    return None


def run_shard(sh, spec):
    w = get_worker()
    db = load_unitdb(w)
    pool = UnitPool(db)
    rng = rng_for(spec["seed"], "C01", spec["idx"])
    if spec["idx"] == 0:
        for fid, code in WITNESSES:
            sid = w.fork("p")
            judge(sh, w, db, sid, code, inexact=(fid == "F1"), witness_of=fid)
            w.drop(sid)
    for k in range(spec["count"]):
        pg = ProgGen(rng, db, pool, tag=f"d{spec['idx']}x{k}", allow_inexact=(rng.random() < 0.06), allow_zero=True,
                     const_eval_edges=(rng.random() < 0.25))
        stmts = []
        for _ in range(rng.randint(1, 6)):
            try:
                s = pg.statement(depth=rng.choice([1, 2, 2, 3]))
            except (ArithmeticError, ValueError, TypeError):
                sh.count("generator_discard")
                continue
            if s:
                stmts.append(s)
        if not stmts:
            continue
        # calls of the generated functions, so their bodies run (dimension of arguments/returns is traced)
        for f in list(pg.fns.values()):
            if rng.random() < 0.7:
                try:
                    args = []
                    for kind, d in f.params:
                        dd = d if kind == "dim" else pg.random_dim()
                        args.append(pg.expr(dd, 1))
                    stmts.append({"text": f"{f.name}({', '.join(a.text for a in args)})",
                                  "inexact": any(a.uses_float_inexact for a in args)})
                except (ArithmeticError, ValueError, TypeError, AttributeError):
                    pass
        code = "\n".join(s["text"] for s in stmts)
        sh.count("statements_using_ans", sum(1 for s in stmts if s.get("uses_ans")))
        inexact = any(s.get("inexact") for s in stmts)
        sid = w.fork("p")
        try:
            r = judge(sh, w, db, sid, code, inexact)
            if r is not None and len(sh.samples) < 3 and r.get("ok"):
                sh.sample({"program": code, "events": len(r.get("events") or []), "nodes": len(r.get("nodes") or [])})
            # the hostile half: the same program with one equality site replaced by another dimension. The checker should
            # reject it (C02 judges that); IF it is accepted, it is an accepted program like any other and must not go
            # wrong at run time
            if rng.random() < 0.5:
                own = [s for s in stmts if s.get("sites")]
                m = None
                if own:
                    target = rng.choice(own)
                    try:
                        m = pg.mutate(target)
                    except (ArithmeticError, ValueError, TypeError):
                        m = None
                if m is not None:
                    mcode = "\n".join(m[0] if s is target else s["text"] for s in stmts)
                    sid2 = w.fork("p")
                    try:
                        sh.count("ill_dimensioned_variants_offered")
                        ZERO_ANY_UNIT[0] = True
                        r2 = judge(sh, w, db, sid2, mcode, inexact)
                        if r2 is not None and (r2.get("ok") or r2.get("stage") == "runtime"):
                            sh.count("ill_dimensioned_variants_accepted(judged like any accepted program)")
                    finally:
                        ZERO_ANY_UNIT[0] = False
                        w.drop(sid2)
        except (WorkerDied, WorkerTimeout):
            sh.count("worker_died_left_to_C08")
            w.restart()
            continue
        finally:
            try:
                w.drop(sid)
            except Exception:
                pass


def replay(sh, case):
    w = get_worker()
    db = load_unitdb(w)
    sid = w.fork("p")
    ZERO_ANY_UNIT[0] = bool(case.get("ill_dimensioned_variant"))
    judge(sh, w, db, sid, case["code"], inexact=("0.1" in case["code"] or "0.7" in case["code"] or "1.1" in case["code"]))


LEVEL_TEXT = ("Seeded random exploration with an online-recorded, offline-checked dimension trace: hooks in the VM emit every "
              "operator result, call argument, return value and foreign-function result with the source span of its instruction; "
              "the monitor joins them with the checker's typed AST (exported per node) and requires the unit's dimension — computed "
              "by the independent UnitDB model — to equal the static type, and restricts run-time failures to the documented kinds.")
LEVEL_NOTE = ("Trusted: the span join between events and typed-AST nodes (an event without a node is not judged), UnitDB; values "
              "in generic bodies are judged only at call boundaries. Known findings F1/F9 are matched by their signature.")
TECHNIQUE = "runtime monitoring: VM event trace joined with the typed AST (dimension trace) + run-time error-kind monitor"
