"""C18 — lists behave as immutable values despite internal sharing.

Monitor A (API level, inside nbserve): depth-first enumeration of every sequence of list operations up to a
bound on several live handles, every handle compared with a plain-Vec model after every operation
(server/src/listcheck.rs), plus long seeded random sequences on more handles.
Monitor B (language level): random histories of numbat list programs over variables that alias each other,
nested lists, structs holding lists and forked sessions, compared with a Python-list model after every input.
Monitor C (thorough): monitor A under Miri."""
import json
import os
import subprocess

from ..core import get_worker, rng_for, bits_to_float, WorkerDied, WorkerTimeout, VERIF, TARGET, NCPU

LEVEL = "exploration"
RULE = ("A: every sequence of list operations {new, with_capacity, literal (From<VecDeque>), literal as the VM builds it, "
        "clone into a free handle, push_front, push_back, tail, consuming head, drop} of length <= L on H live handles "
        "(quick: H=3 L=9, H=4 L=8; thorough: H=3 L=13, H=4 L=11, H=5 L=9), pruned on a canonical form of (contents, "
        "allocation partition, views, allocation lengths, owner counts); after every operation every handle is compared with "
        "its Vec model (len, is_empty, iteration, head of a copy, == of all pairs incl. a fresh copy). Plus seeded random "
        "sequences of 300 operations on 6 handles. B: seeded numbat-language histories (cons, cons_end, tail, head, concat, "
        "take, drop, reverse, element_at, conditionals, user functions, |>, nested lists, struct fields, shadowing, forks), all "
        "live variables compared with a Python model after every input. distinct = canonical (contents, sharing) states "
        "reached in A, summed over the 16 shards of each configuration (a state reached in several shards counts once per "
        "shard) + distinct inputs judged in B; a state is non-trivial when at least one list is non-empty")
EXHAUSTIVE = {"quick": False, "thorough": False}
FLOOR = {"quick": 20000, "thorough": 200000}
ASSUMPTIONS = ["pruning: two states with the same canonical form (visible contents up to renaming of the unique element "
               "ids, which handles share which allocation through which window, allocation lengths, owner counts) have "
               "isomorphic futures; elements outside every view are not part of the form",
               "the language-level model implements the documented meaning of the list functions on Python lists"]
NEEDS_THOROUGH = ["miri", "fast"]

CONFIGS = {
    "quick": [(3, 9), (4, 8)],
    "thorough": [(3, 13), (4, 11), (5, 9)],
}
FUZZ = {"quick": (6, 300, 400), "thorough": (6, 400, 20000)}      # handles, length, sequences (total)
LANG = {"quick": 30, "thorough": 900}                                # histories per shard
NS = 16


def shards(tier, seed):
    out = []
    for (h, d) in CONFIGS[tier]:
        for k in range(NS):
            out.append({"kind": "enum", "handles": h, "depth": d, "shard": k, "nshards": NS})
    fh, fl, fc = FUZZ[tier]
    for k in range(NS):
        out.append({"kind": "fuzz", "handles": fh, "len": fl, "count": fc // NS, "seed": seed * 1000 + k})
    for k in range(NS):
        out.append({"kind": "lang", "idx": k, "seed": seed, "count": LANG[tier]})
    if tier == "thorough":
        for k in range(NS):
            out.append({"kind": "miri", "handles": 3, "depth": 4, "shard": k, "nshards": NS})
        # the plain release build (debug assertions and overflow checks off, as shipped)
        for k in range(NS):
            out.append({"kind": "enum", "handles": 4, "depth": 9, "shard": k, "nshards": NS, "profile": "fast"})
    return out


# --------------------------------------------------------------------------------------
# monitor A

def absorb_stats(sh, r, prefix):
    st = r["stats"]
    sh.judged(st["comparisons"])
    sh.count(f"{prefix}.operations_executed_and_checked", st["nodes"])
    sh.count(f"{prefix}.pruned_revisits", st.get("pruned", 0))
    sh.count(f"{prefix}.complete_sequences", st["leaves"])
    for k, v in st["ops"].items():
        sh.count_in("operations", k, v)
    for k, v in st["paths"].items():
        sh.count_in("list.rs_branches_taken (from hooked sharing state)", k, v)
    sh.counters[f"{prefix}.max_len"] = max(sh.counters.get(f"{prefix}.max_len", 0), st["max_len"])
    sh.counters[f"{prefix}.max_owners"] = max(sh.counters.get(f"{prefix}.max_owners", 0), st["max_sharers"])


def run_enum(sh, spec):
    w = get_worker(profile=spec.get("profile", "checked"))
    req = {"op": "listcheck", "handles": spec["handles"], "depth": spec["depth"], "shard": spec["shard"],
           "nshards": spec["nshards"], "prune": True}
    r = w.call(req, timeout=7200)
    if not r.get("ok"):
        sh.inconclusive_case(f"harness exception: listcheck failed: {str(r)[:300]}")
        return
    absorb_stats(sh, r, f"enum_H{spec['handles']}_L{spec['depth']}" + ("_release_build" if spec.get("profile") == "fast" else ""))
    # canonical states are counted per shard by the explorer (shards partition the sequences, not the states, so the
    # sum over shards over-counts states reached in several shards; the per-shard numbers are in the counters)
    sh.extra_distinct += r["distinct_states"]
    for v in r["violations"]:
        sh.violation({"kind": "enum", "handles": v["handles"], "seq": v["seq"], "signature": v["why"][:60]},
                     f"list operations {json.dumps(v['seq'])}: {v['why']}", v.get("state"))
    if spec["shard"] == 0:
        sh.sample({"monitor": "A", "config": f"H={spec['handles']} L={spec['depth']}", "nodes_in_shard_0": r["stats"]["nodes"],
                   "distinct_states_in_shard_0": r["distinct_states"]})


def run_fuzz(sh, spec):
    w = get_worker()
    r = w.call({"op": "listfuzz", "handles": spec["handles"], "len": spec["len"], "count": spec["count"],
                "seed": spec["seed"]}, timeout=7200)
    if not r.get("ok"):
        sh.inconclusive_case(f"harness exception: listfuzz failed: {str(r)[:300]}")
        return
    absorb_stats(sh, r, "fuzz")
    sh.extra_distinct += r["distinct_states"]
    for v in r["violations"]:
        sh.violation({"kind": "enum", "handles": v["handles"], "seq": v["seq"], "signature": v["why"][:60]},
                     f"list operations (random sequence, {len(v['seq'])} ops): {v['why']}", v.get("state"))


def run_miri(sh, spec):
    env = dict(os.environ, CARGO_NET_OFFLINE="true", MIRIFLAGS="-Zmiri-disable-isolation")
    env.pop("RUSTFLAGS", None)
    cmd = ["cargo", "+nightly", "miri", "run", "--offline", "--target-dir", os.path.join(TARGET, "miri"), "--",
           "listcheck", str(spec["handles"]), str(spec["depth"]), "prune", str(spec["shard"]), str(spec["nshards"])]
    try:
        p = subprocess.run(cmd, cwd=os.path.join(VERIF, "server"), env=env, capture_output=True, text=True, timeout=3600)
    except subprocess.TimeoutExpired:
        sh.inconclusive_case("miri run exceeded the harness watchdog (not a verdict)")
        return
    line = next((l for l in p.stdout.splitlines() if l.startswith("{")), None)
    if "Undefined Behavior" in p.stderr or "error: unsupported operation" in p.stderr:
        if "Undefined Behavior" in p.stderr:
            tail = "\n".join(p.stderr.splitlines()[-40:])
            sh.violation({"kind": "miri", "cmd": cmd, "signature": "miri UB"},
                         f"Miri reports undefined behaviour while exploring list operations:\n{tail}")
        else:
            sh.inconclusive_case("miri: unsupported operation: " + p.stderr[-400:])
        return
    if line is None:
        sh.inconclusive_case(f"harness exception: miri run produced no result (rc={p.returncode}): {p.stderr[-600:]}")
        return
    r = json.loads(line)
    absorb_stats(sh, r, "miri_enum_H3_L4")
    for v in r["violations"]:
        sh.violation({"kind": "enum", "handles": v["handles"], "seq": v["seq"], "signature": v["why"][:60]},
                     f"(under Miri) list operations {json.dumps(v['seq'])}: {v['why']}")


# --------------------------------------------------------------------------------------
# monitor B: language level

SETUP = """fn vfrot(l) = if is_empty(l) then l else cons_end(head(l), tail(l))
fn vfsnd(l) = tail(cons(0, tail(l)))
fn vfgrow(l, n) = if n <= 0 then l else vfgrow(cons(n, cons_end(n, l)), n - 1)
fn vfpair(l) = [l, tail(cons(0, l))]
fn vfkeep(l, m) = if len(m) > len(l) then m else l
struct VfBox { a: List<Scalar>, b: List<Scalar> }"""


class LGen:
    def __init__(self, rng):
        self.rng = rng
        self.next = 100
        self.vars = {}        # name -> ("L"|"LL", python value)
        self.nvar = 0

    def fresh(self):
        self.next += 1
        return self.next

    def names(self, ty):
        return [n for n, (t, _) in self.vars.items() if t == ty]

    def lst(self, depth):
        """(text, python list of ints)"""
        rng = self.rng
        r = rng.random()
        names = self.names("L")
        if depth <= 0 or r < 0.18:
            if names and rng.random() < 0.75:
                n = rng.choice(names)
                return n, list(self.vars[n][1])
            xs = [self.fresh() for _ in range(rng.choice([0, 1, 2, 3, 3, 4]))]
            return "[" + ", ".join(map(str, xs)) + "]", xs
        if r < 0.30:
            t, v = self.lst(depth - 1)
            x = self.fresh()
            return f"cons({x}, {t})", [x] + v
        if r < 0.42:
            t, v = self.lst(depth - 1)
            x = self.fresh()
            return f"cons_end({x}, {t})", v + [x]
        if r < 0.54:
            t, v = self.lst(depth - 1)
            if v:
                return (f"tail({t})", v[1:]) if rng.random() < 0.7 else (f"({t} |> tail)", v[1:])
            return t, v
        if r < 0.60:
            a, va = self.lst(depth - 1)
            b, vb = self.lst(depth - 1)
            return f"concat({a}, {b})", va + vb
        if r < 0.66:
            t, v = self.lst(depth - 1)
            k = rng.randint(0, 4)
            return (f"take({k}, {t})", v[:k]) if rng.random() < 0.5 else (f"drop({k}, {t})", v[k:])
        if r < 0.70:
            t, v = self.lst(depth - 1)
            return f"reverse({t})", v[::-1]
        if r < 0.76:
            t, v = self.lst(depth - 1)
            c = rng.randrange(3)
            if c == 0:
                return f"vfrot({t})", (v[1:] + v[:1]) if v else v
            if c == 1 and v:
                return f"vfsnd({t})", v[1:]
            n = rng.randint(0, 2)
            out = list(v)
            for k in range(n, 0, -1):
                out = [k] + out + [k]
            return f"vfgrow({t}, {n})", out
        if r < 0.82:
            a, va = self.lst(depth - 1)
            b, vb = self.lst(depth - 1)
            c, vc = self.lst(depth - 1)
            k = rng.randint(0, 4)
            return f"(if len({a}) > {k} then {b} else {c})", (vb if len(va) > k else vc)
        if r < 0.90:
            t, v = self.lol(depth - 1)
            if v:
                i = rng.randrange(len(v))
                return (f"head({t})", list(v[0])) if rng.random() < 0.5 else (f"element_at({i}, {t})", list(v[i]))
            return self.lst(depth - 1)
        if r < 0.95:
            a, va = self.lst(depth - 1)
            b, vb = self.lst(depth - 1)
            f = rng.choice(["a", "b"])
            return f"VfBox {{ b: {b}, a: {a} }}.{f}", (va if f == "a" else vb)
        a, va = self.lst(depth - 1)
        b, vb = self.lst(depth - 1)
        return f"vfkeep({a}, {b})", (vb if len(vb) > len(va) else va)

    def lol(self, depth):
        """list of lists"""
        rng = self.rng
        names = self.names("LL")
        r = rng.random()
        if names and r < 0.3:
            n = rng.choice(names)
            return n, [list(x) for x in self.vars[n][1]]
        if depth <= 0 or r < 0.6:
            parts = [self.lst(max(depth - 1, 0)) for _ in range(rng.randint(1, 3))]
            return "[" + ", ".join(p[0] for p in parts) + "]", [p[1] for p in parts]
        if r < 0.7:
            t, v = self.lst(depth - 1)
            return f"vfpair({t})", [list(v), list(v)]
        if r < 0.8:
            t, v = self.lol(depth - 1)
            a, va = self.lst(depth - 1)
            return f"cons({a}, {t})", [va] + v
        if r < 0.9:
            t, v = self.lol(depth - 1)
            if v:
                return f"tail({t})", v[1:]
            return t, v
        t, v = self.lol(depth - 1)
        if rng.random() < 0.5:
            return f"map(vfrot, {t})", [(x[1:] + x[:1]) if x else x for x in v]
        if all(v):
            return f"map(tail, {t})", [x[1:] for x in v]
        return t, v

    def step(self):
        """(input text, kind, expectation)"""
        rng = self.rng
        r = rng.random()
        if r < 0.62 or not self.names("L"):
            t, v = self.lst(rng.choice([1, 2, 2, 3, 4]))
            if self.names("L") and rng.random() < 0.35:
                name = rng.choice(self.names("L"))          # shadowing: the old binding stays alive underneath
            else:
                self.nvar += 1
                name = f"vl{self.nvar}"
            self.vars[name] = ("L", v)
            return f"let {name} = {t}", "def", None
        if r < 0.75:
            t, v = self.lol(rng.choice([1, 2, 3]))
            self.nvar += 1
            name = f"vn{self.nvar}"
            self.vars[name] = ("LL", v)
            return f"let {name} = {t}", "def", None
        t, v = self.lst(rng.choice([1, 2, 3]))
        c = rng.randrange(5)
        if c == 0:
            return f"len({t})", "scalar", float(len(v))
        if c == 1 and v:
            return f"head({t})", "scalar", float(v[0])
        if c == 2:
            return f"sum({t})", "scalar", float(sum(v))
        if c == 3:
            u, vu = self.lst(2)
            return f"{t} == {u}", "bool", v == vu
        if v:
            i = rng.randrange(len(v))
            return f"element_at({i}, {t})", "scalar", float(v[i])
        return f"is_empty({t})", "bool", True


def decode(v):
    """structured value -> python (lists of ints / floats / bools)"""
    if v is None:
        return None
    if v["t"] == "list":
        return [decode(x) for x in v["items"]]
    if v["t"] == "q":
        f = bits_to_float(v["v"]["b"])
        return int(f) if f == int(f) and not v["unit"] else f
    if v["t"] == "b":
        return v["v"]
    return ("?", v["t"])


def sharing_stats(sh, values):
    allocs = {}
    for name, v in values.items():
        if v and v.get("t") == "list" and "alloc" in v:
            allocs.setdefault(v["alloc"], []).append(v)
            if v.get("view"):
                sh.count_in("language_level_sharing", "global bound to a view into an allocation")
            for it in v["items"]:
                if it.get("t") == "list" and "alloc" in it:
                    allocs.setdefault(it["alloc"], []).append(it)
    for a, vs in allocs.items():
        if len(vs) > 1:
            sh.count_in("language_level_sharing", "allocation reachable from >= 2 global list values")
            if len({json.dumps(v.get("view")) for v in vs}) > 1:
                sh.count_in("language_level_sharing", "same allocation seen through different views")


def check_all(sh, w, sid, gen, history, where):
    ls, lls = gen.names("L"), gen.names("LL")
    # lists of different nesting cannot live in one list: observe the two groups separately
    obs = []
    if ls:
        obs.append(("[" + ", ".join(ls) + "]", [gen.vars[n][1] for n in ls], ls))
    if lls:
        obs.append(("[" + ", ".join(lls) + "]", [gen.vars[n][1] for n in lls], lls))
    for code, want, names in obs:
        r = w.eval(sid, code, stmts=False, render=False)
        sh.judged()
        if r.get("status") == "panic" or not r.get("ok"):
            sh.violation({"kind": "lang", "history": history, "observe": code, "signature": "observe fails"},
                         f"{where}: observing the live list variables fails: {r.get('msg') or r.get('panic')}")
            return False
        got = decode(r["value"])
        if got != want:
            bad = [(n, g, x) for n, g, x in zip(names, got, want) if g != x]
            sh.violation({"kind": "lang", "history": history, "observe": code, "expected": want, "signature": "contents differ"},
                         f"{where}: list variable(s) hold other elements than an immutable sequence would: "
                         + "; ".join(f"{n} = {g} (model {x})" for n, g, x in bad[:3]) + f"\n  history: {history[-6:]}")
            return False
    return True


def run_history(sh, w, rng, k):
    gen = LGen(rng)
    sid = w.fork("p")
    history = []
    try:
        r = w.eval(sid, SETUP, stmts=False, render=False)
        if not r.get("ok"):
            sh.inconclusive_case(f"harness exception: setup rejected: {r.get('msg')}")
            return
        history.append(SETUP)
        nsteps = rng.randint(6, 28)
        fork_at = rng.randrange(nsteps) if rng.random() < 0.4 else None
        twin = None
        for i in range(nsteps):
            code, kind, want = gen.step()
            history.append(code)
            r = w.eval(sid, code, stmts=False, render=False)
            sh.judged()
            if r.get("status") == "panic" or not r.get("ok"):
                sh.violation({"kind": "lang", "history": history, "signature": "input fails"},
                             f"well-formed list program fails: `{code}`: {r.get('stage')}/{r.get('kind')}: {r.get('msg') or r.get('panic')}")
                return
            sh.nontrivial(code)
            if kind in ("scalar", "bool"):
                got = decode(r["value"])
                if got != want:
                    sh.violation({"kind": "lang", "history": history, "expected": want, "signature": "observation differs"},
                                 f"`{code}` = {got}, an immutable sequence gives {want}\n  history: {history[-6:]}")
                    return
            if not check_all(sh, w, sid, gen, history, f"after `{code}`"):
                return
            if fork_at == i:
                # clone independence: a fork is driven on with its own inputs, the origin must not notice
                twin = w.fork(sid)
                saved_vars, saved_next, saved_nvar = dict(gen.vars), gen.next, gen.nvar
                for _ in range(rng.randint(2, 8)):
                    c2, _, _ = gen.step()
                    r2 = w.eval(twin, c2, stmts=False, render=False)
                    sh.judged()
                    if r2.get("status") == "panic" or not r2.get("ok"):
                        sh.violation({"kind": "lang", "history": history + ["# in a fork:", c2], "signature": "input fails"},
                                     f"well-formed list program fails in a forked session: `{c2}`: {r2.get('msg') or r2.get('panic')}")
                        return
                if not check_all(sh, w, twin, gen, history + ["# fork continued"], "in the fork"):
                    return
                w.drop(twin)
                gen.vars, gen.next, gen.nvar = saved_vars, saved_next + 1000, saved_nvar + 100
                if not check_all(sh, w, sid, gen, history + ["# after a fork ran on"], "origin after its fork was driven on"):
                    return
                sh.count("forks_checked")
        rg = w.call({"op": "raw_global", "sid": sid, "names": list(gen.vars), "sharing": True})
        if rg.get("ok"):
            sharing_stats(sh, rg["values"])
        if k % 50 == 0:
            sh.sample({"monitor": "B", "history_tail": history[-4:],
                       "final_model": {n: v for n, (_, v) in list(gen.vars.items())[-3:]}})
    finally:
        try:
            w.drop(sid)
        except Exception:
            pass


def run_lang(sh, spec):
    w = get_worker()
    rng = rng_for(spec["seed"], "C18", spec["idx"])
    for k in range(spec["count"]):
        try:
            run_history(sh, w, rng, k)
        except (WorkerDied, WorkerTimeout) as e:
            sh.violation({"kind": "lang", "signature": "crash"}, f"interpreter crashed/hung during a list history: {e}")
            w.restart()


def run_shard(sh, spec):
    {"enum": run_enum, "fuzz": run_fuzz, "lang": run_lang, "miri": run_miri}[spec["kind"]](sh, spec)


def replay(sh, case):
    w = get_worker()
    if case.get("kind") == "enum":
        r = w.call({"op": "listrun", "handles": case["handles"], "seq": case["seq"]})
        for s in r.get("steps", []):
            print(json.dumps(s["op"]), "->", json.dumps(s["state"]), s.get("problem") or "")
        sh.judged()
        if r.get("violated"):
            sh.violation(case, f"step {r['step']}: {r['why']}")
        return
    if case.get("kind") == "lang":
        sid = w.fork("p")
        for code in case["history"]:
            if code.startswith("#"):
                continue
            r = w.eval(sid, code, stmts=False)
            print(code.splitlines()[0][:100], "=>", r.get("val_text") or r.get("msg") or "")
        if "observe" in case:
            r = w.eval(sid, case["observe"], stmts=False)
            got = decode(r["value"]) if r.get("ok") else None
            print("observed:", got, "\nexpected:", case.get("expected"))
            sh.judged()
            if got != case.get("expected"):
                sh.violation(case, "live list variables differ from the model")


LEVEL_TEXT = ("Bounded-exhaustive exploration of the real NumbatList type (all operation sequences up to the stated length on "
              "3-5 simultaneously live, storage-sharing handles, with state pruning that uses the hooked sharing structure), "
              "seeded random long sequences, and language-level list histories; after every operation a monitor compares every "
              "live list value with a plain immutable-sequence model. Thorough adds the same explorer under Miri.")
LEVEL_NOTE = ("Exhaustive only up to the bound and modulo the pruning assumption; element type is a scalar quantity; the "
              "evidence lists which branches of list.rs (copy-on-write vs in-place, view vs whole) the sequences took.")
TECHNIQUE = ("runtime monitoring: reference-model (Vec) monitor over bounded-exhaustive and random operation histories of the "
             "real list type, invariant comparison after every step; Miri as UB sanitizer")
