//! C18: bounded-exhaustive exploration of `NumbatList` against a plain `Vec` model.
//! (filled in below)
use serde_json::{json, Value as J};

pub fn op_listcheck(_req: &J) -> J {
    json!({"ok": false, "harness_error": "not implemented"})
}

pub fn op_listrun(_req: &J) -> J {
    json!({"ok": false, "harness_error": "not implemented"})
}
