"""C05 — automatic unit simplification never changes the quantity."""
import math
from fractions import Fraction

from ..core import get_worker, rng_for, qval, WorkerDied, WorkerTimeout
from ..unitdb import load_unitdb, rel_close, nmul, exact, to_dec, dim_text, sunit_key
from ..gen import (UnitPool, EvalSession, plit, lit, random_uexpr, sibling_uexpr, random_magnitude)

LEVEL = "exploration"
RULE = ("seeded random products/quotients/powers of prelude quantities with prefixes — biased to combinations the "
        "simplifier rewrites (same-dimension numerator/denominator incl. dimensionless results, percent-like units, "
        "units with equal base representation such as J/s, Wh/W, kB/(MB/s)) plus a fixed list of such idioms. For "
        "each expression E the raw value (`let` + raw-global hook) is compared with four display paths: final result "
        "(structured + text), `print(E)`, string interpolation \"{E}\", and the text re-evaluated as numbat source; "
        "and `E -> U` is observed on the same three paths and must stay in U. distinct = expression text; "
        "non-trivial = the displayed unit differs structurally from the raw unit")
EXHAUSTIVE = {"quick": False, "thorough": False}
FLOOR = {"quick": 500, "thorough": 5000}
ASSUMPTIONS = ["display texts carry 6 significant digits: read-back values are compared with 1e-5 relative tolerance, "
               "structured values with 1e-9", "zero magnitudes are displayed without unit by design (zero convention)"]
NSHARDS = 16

IDIOMS = [
    "5 J / (2 s)", "3 N * 2 m / (1 J)", "12 Wh / (4 W)", "100 kB / (2 MB/s)", "3 km / (2 m)", "50 % * 40 m",
    "2 kW * 3 h", "1500 m * 2 kg / (3 s^2)", "60 km/h * 30 min", "5 V * 2 A", "10 N / (2 m^2)", "1 L / (1 cm^2)",
    "2 kg * 9.81 m/s^2 * 3 m", "3 mol/L * 2 L", "8 bit / (1 byte)", "2 Hz * 5 s", "1 GiB / (100 Mbit/s)",
    "5 ppm * 2 kg", "4 J / (2 N)", "6 W / (2 A)", "3 C / (1.5 s)", "1 mile / (1 hour)", "100 cm * 2 m * 3 mm",
    "5 percent * 10 percent", "1 dozen * 3", "2 rad * 3 m", "90 deg / (2 s)", "7 kcal / (2 min)", "3 m^2 / (2 m)",
    "9 m^3 / (3 m^2)", "1 kWh / (1 kW)", "5 Pa * 2 m^3", "10 kg m^2 / s^2", "10 kg m^2 / s^3", "3 A * 4 ohm",
    "2 mm * 1 km", "5 m / (10 km)", "3 g / (6 kg)", "1 inch / (1 cm)", "2 ft * 3 in",
    # dedicated witness of known finding F14 (keeps the entry honest: it must keep reproducing)
    "7 * (gauss) / (340.85 * (tablespoons^3 * planck_length))",
]


def shards(tier, seed):
    n = 4000 if tier == "quick" else 80000
    return [{"idx": i, "n": NSHARDS, "seed": seed, "count": n // NSHARDS} for i in range(NSHARDS)]


def gen_expr(rng, pool):
    r = rng.random()
    x = random_magnitude(rng, allow_zero=rng.random() < 0.3)
    y = random_magnitude(rng, allow_zero=False)
    a = random_uexpr(rng, pool, nfactors=rng.choice([1, 1, 2]))
    if r < 0.45:
        b = sibling_uexpr(rng, pool, a)          # same dimension: quotient is dimensionless, product a square
    else:
        b = random_uexpr(rng, pool, nfactors=rng.choice([1, 1, 2]))
    op = rng.choice(["/", "/", "*"])
    root = rng.random() < 0.2
    if root:
        x, y = abs(x), abs(y)
    e = f"{plit(x)} * ({a.text}) {op} ({plit(y)} * ({b.text}))"
    if rng.random() < 0.2:
        c = random_uexpr(rng, pool, nfactors=1)
        e = f"{e} {rng.choice(['*', '/'])} ({plit(abs(random_magnitude(rng, allow_zero=False)))} * ({c.text}))"
    if root:
        # fractional powers of the whole product, or of its factors separately (units then carry rational exponents)
        k = rng.choice(["sqrt", "cbrt", "^(1/2)", "^(3/2)", "^(2/3)", "split"])
        if k in ("sqrt", "cbrt"):
            e = f"{k}({e})"
        elif k == "split":
            e = f"sqrt({plit(x)} * ({a.text})) {'*' if op == '*' else '/'} sqrt({plit(y)} * ({b.text}))"
        else:
            e = f"({e}){k}"
    return e, a


def out_of_double_range(db, disp_unit, raw):
    """F14 predicate: expressing the raw quantity in the unit the simplifier chose needs a number
    (the unit's factor to base units, the raw unit's factor, the base-unit value, or the magnitude in
    the chosen unit) outside the comfortable range of doubles"""
    lo, hi = to_dec("1e-300"), to_dec("1e300")
    try:
        fd = abs(to_dec(db.sunit_factor(disp_unit)))
        fr = abs(to_dec(db.sunit_factor(raw["unit"])))
        base = abs(to_dec(db.base_value(raw)))
        mag = base / fd
    except ArithmeticError:
        return True
    return any(not (lo < v < hi) for v in (fd, fr, base, mag))


def EXPECTED_KNOWN(tier):
    return ["F14"]


def read_back(es, text):
    """evaluate a displayed text as numbat source"""
    r = es.eval(text)
    if r.get("ok") and r.get("value") and r["value"].get("t") == "q":
        return r["value"]
    return None


def close_disp(db, shown_q, raw_base):
    if isinstance(raw_base, float):
        return rel_close(db.base_value(shown_q), raw_base)
    return rel_close(db.base_value(shown_q), raw_base, 2e-5)


def check_expr(sh, w, es, db, E, conv_target=None):
    case = {"E": E}
    reqs = [
        {"op": "eval", "code": f"let vf_r = {E}", "stmts": False},
        {"op": "raw_global", "names": ["vf_r"]},
        {"op": "eval", "code": E, "stmts": False},
        {"op": "eval", "code": f"print({E})", "stmts": False},
        {"op": "eval", "code": f"\"{{{E}}}\"", "stmts": False},
    ]
    rs = es.run(reqs)
    r_let, r_raw, r_disp, r_print, r_interp = rs
    for r in rs:
        if r.get("status") == "panic":
            sh.violation(case, f"`{E}`: panic on a display path: {r['panic']['msg'][:300]} at {r['panic']['frame']}")
            return
    if not r_let.get("ok"):
        if r_let.get("status") == "panic":
            sh.violation(case, f"`{E}`: panic {r_let['panic']}")
        else:
            sh.count("expr_not_evaluable")
        return
    raw = r_raw["values"]["vf_r"]
    if raw.get("t") != "q":
        return
    sh.judged()
    x = qval(raw)
    raw_dim = db.sunit_dim(raw["unit"])
    raw_base = db.base_value(raw)
    finite = not (math.isnan(x) or math.isinf(x))
    probs = []
    # path 1: final result
    if not r_disp.get("ok"):
        probs.append(f"evaluating `{E}` as an expression fails although `let` succeeded: {r_disp.get('msg') or r_disp.get('panic')}")
    else:
        d = r_disp["value"]
        dx = qval(d)
        if not (dx == 0 and not d["unit"]) and db.sunit_dim(d["unit"]) != raw_dim and finite and x != 0:
            probs.append(f"displayed result {d['text']!r} has dimension {dim_text(db.sunit_dim(d['unit']))}, raw value "
                         f"{raw['text']!r} has {dim_text(raw_dim)}")
        elif finite and not rel_close(db.base_value(d), raw_base) and out_of_double_range(db, d["unit"], raw):
            # F14: the simplifier chose a unit whose conversion factor does not fit a double
            sh.known_hit("F14", dict(case, raw=raw["text"], displayed=d["text"]))
            return
        elif finite and not rel_close(db.base_value(d), raw_base):
            probs.append(f"displayed result {d['text']!r} = {float(db.base_value(d))!r} (base units) but the raw value "
                         f"{raw['text']!r} = {float(raw_base)!r}")
        if sunit_key(d["unit"]) != sunit_key(raw["unit"]):
            sh.nontrivial(E)
        # the displayed text itself reads back as the same quantity
        if finite and x != 0 and r_disp["val_text"]:
            back = read_back(es, r_disp["val_text"])
            if back is None:
                sh.count("display_not_reparsable")
            elif db.sunit_dim(back["unit"]) != raw_dim or not close_disp(db, back, raw_base):
                probs.append(f"displayed text {r_disp['val_text']!r} reads back as {back['text']!r}, not the raw quantity {raw['text']!r}")
    # paths 2 and 3: print and interpolation
    for name, r, text in (("print", r_print, (r_print.get("prints") or [None])[0]),
                          ("interpolation", r_interp, (r_interp.get("value") or {}).get("v"))):
        if not r.get("ok"):
            probs.append(f"{name} of `{E}` fails: {r.get('msg') or r.get('panic')}")
            continue
        if text is None or not finite or x == 0:
            continue
        back = read_back(es, text)
        sh.count(f"{name}_paths")
        if back is None:
            sh.count("display_not_reparsable")
        elif db.sunit_dim(back["unit"]) != raw_dim or not close_disp(db, back, raw_base):
            probs.append(f"{name} shows {text!r}, which is {back['text']!r}, not the raw quantity {raw['text']!r}")
    if probs:
        sh.violation(case, f"`{E}`: " + "; ".join(probs))
    if len(sh.samples) < 3 and r_disp.get("ok") and sunit_key(r_disp["value"]["unit"]) != sunit_key(raw["unit"]):
        sh.sample({"E": E, "raw": raw["text"], "displayed": r_disp["val_text"],
                   "printed": (r_print.get("prints") or [None])[0]})


def check_conversion_kept(sh, w, es, db, E, U):
    """a unit chosen with an explicit conversion is displayed as is on every path"""
    case = {"E": E, "U": U}
    C = f"({E}) -> ({U})"
    rs = es.run([
        {"op": "eval", "code": f"let vf_u = {U}", "stmts": False},
        {"op": "raw_global", "names": ["vf_u"]},
        {"op": "eval", "code": C, "stmts": False},
        {"op": "eval", "code": f"print({C})", "stmts": False},
        {"op": "eval", "code": f"\"{{{C}}}\"", "stmts": False},
        {"op": "eval", "code": f"let vf_c = {C}\nvf_c", "stmts": False},
    ])
    for r in rs:
        if r.get("status") == "panic":
            sh.violation(case, f"`{C}`: panic: {r['panic']['msg'][:300]} at {r['panic']['frame']}")
            return
    if not rs[0].get("ok") or not rs[2].get("ok"):
        sh.count("conversion_not_evaluable")
        return
    ut = rs[1]["values"]["vf_u"]["unit_text"]
    x = qval(rs[2]["value"])
    if x == 0 or math.isnan(x) or math.isinf(x) or not ut:
        return
    sh.judged()
    probs = []
    shown = [("result", rs[2].get("val_text")), ("print", (rs[3].get("prints") or [None])[0]),
             ("interpolation", (rs[4].get("value") or {}).get("v")), ("variable", rs[5].get("val_text"))]
    for name, text in shown:
        if text is None:
            probs.append(f"{name} path failed")
        elif not text.endswith(ut):
            probs.append(f"{name} shows {text!r}: the explicitly requested unit {ut!r} was rewritten")
    if probs:
        sh.violation(case, f"`{C}`: " + "; ".join(probs))
    sh.nontrivial("conv", E, U)


def run_shard(sh, spec):
    w = get_worker()
    db = load_unitdb(w)
    pool = UnitPool(db)
    rng = rng_for(spec["seed"], "C05", spec["idx"])
    es = EvalSession(w, refresh=60)
    todo = [(e, None) for i, e in enumerate(IDIOMS) if i % spec["n"] == spec["idx"]]
    for k in range(spec["count"]):
        e, a = gen_expr(rng, pool)
        todo.append((e, a))
    for e, a in todo:
        try:
            check_expr(sh, w, es, db, e)
            if a is not None and rng.random() < 0.3:
                src = f"{plit(random_magnitude(rng, allow_zero=False))} * ({a.text})"
                check_conversion_kept(sh, w, es, db, src, sibling_uexpr(rng, pool, a).text)
        except (WorkerDied, WorkerTimeout) as ex:
            sh.violation({"E": e}, f"interpreter crashed/hung on `{e}`: {ex}")
            w.restart()
            es.reset()
    es.close()


def replay(sh, case):
    w = get_worker()
    db = load_unitdb(w)
    es = EvalSession(w)
    if "U" in case:
        check_conversion_kept(sh, w, es, db, case["E"], case["U"])
    else:
        check_expr(sh, w, es, db, case["E"])


LEVEL_TEXT = ("Seeded random exploration biased to what the simplifier rewrites: each expression's raw value (hook) is "
              "compared with what the real interpreter shows on every display path (result, print, interpolation) — "
              "structurally through the unit model and textually by re-evaluating the displayed text — and explicit "
              "conversions are checked to survive all paths unchanged.")
LEVEL_NOTE = ("Trusted: UnitDB model; numbat's own parser for reading displayed text back (6 significant digits => 2e-5 "
              "tolerance on that path).")
TECHNIQUE = "runtime monitoring: raw-vs-displayed differential monitor (hooked raw value, three display paths, read-back) with unit model"
