"""C23 — standard-library inverse conversions round-trip."""
import math
import datetime as pydt
from fractions import Fraction

from ..core import get_worker, rng_for, qval, WorkerDied, WorkerTimeout
from ..unitdb import load_unitdb, rel_close, nmul, nadd, exact, to_dec, sunit_key
from ..gen import UnitPool, EvalSession, plit, lit, random_magnitude, atom_uexpr

LEVEL = "exploration"
RULE = ("seeded random inputs per documented inverse pair: temperatures (°C/°F <-> K, both directions, and °C -> °F vs "
        "the exact formula), Unix time and Julian date <-> DateTime over years -9000..9999 with microsecond parts, "
        "sin/asin, cos/acos, tan/atan, sinh/asinh, cosh/acosh, tanh/atanh, exp/ln, 10^x/log10, 2^x/log2 on their "
        "principal domains, and unit_list over random same-dimension unit lists (unsorted, duplicated; parts add up, "
        "all but the last whole, units descending and distinct). distinct = expression text; non-trivial = all")
EXHAUSTIVE = {"quick": False, "thorough": False}
FLOOR = {"quick": 2000, "thorough": 30000}
ASSUMPTIONS = ["tolerances are conditioning-aware: absolute 1e-9 x (|x| + offset) for temperatures, 4 ulp of the second "
               "count + 1 us for date round trips, 1e-9 (relative or absolute on the principal domain interior) for "
               "transcendental pairs"]
NSHARDS = 16


def shards(tier, seed):
    n = 12000 if tier == "quick" else 200000
    return [{"idx": i, "n": NSHARDS, "seed": seed, "count": n // NSHARDS} for i in range(NSHARDS)]


def scalar(r):
    if r.get("ok") and r.get("value") and r["value"].get("t") == "q":
        return qval(r["value"])
    return None


def rand_instant(rng):
    """(numbat literal, unix microseconds as exact int)"""
    if rng.random() < 0.5:
        year = rng.randint(1900, 2200)
    else:
        year = rng.randint(-9000, 9998)
    month, day = rng.randint(1, 12), rng.randint(1, 28)
    h, m, s = rng.randint(0, 23), rng.randint(0, 59), rng.randint(0, 59)
    us = rng.choice([0, 0, rng.randint(0, 999999), 500000, 999999, 1])
    text = f"{year:05d}" if year < 0 else f"{year:04d}"
    lit_ = f'datetime("{text}-{month:02d}-{day:02d} {h:02d}:{m:02d}:{s:02d}.{us:06d} UTC")'
    # proleptic Gregorian day count (independent of numbat/jiff): days from civil, Howard Hinnant's algorithm
    y = year - (1 if month <= 2 else 0)
    era = y // 400      # Python floor division (the C original needs the -399 correction)
    yoe = y - era * 400
    mp = (month + 9) % 12
    doy = (153 * mp + 2) // 5 + day - 1
    doe = yoe * 365 + yoe // 4 - yoe // 100 + doy
    days = era * 146097 + doe - 719468
    unix_us = ((days * 24 + h) * 60 + m) * 60 * 1000000 + s * 1000000 + us
    return lit_, unix_us


TRANS = [
    # (forward template, inverse template, domain lo, hi, python forward)
    ("sin({x})", "asin({y})", -1.5, 1.5, math.sin),
    ("cos({x})", "acos({y})", 0.05, 3.09, math.cos),
    ("tan({x})", "atan({y})", -1.5, 1.5, math.tan),
    ("sinh({x})", "asinh({y})", -20.0, 20.0, math.sinh),
    ("cosh({x})", "acosh({y})", 0.1, 20.0, math.cosh),
    ("tanh({x})", "atanh({y})", -5.0, 5.0, math.tanh),
    ("exp({x})", "ln({y})", -300.0, 300.0, math.exp),
    ("10^({x})", "log10({y})", -300.0, 300.0, lambda x: 10.0 ** x),
    ("2^({x})", "log2({y})", -1000.0, 1000.0, lambda x: 2.0 ** x),
]


def check_temperature(sh, es, rng):
    kind = rng.randrange(5)
    if kind in (0, 1):
        x = round(rng.uniform(-273.15, 5000), rng.randint(0, 6)) if rng.random() < 0.8 else rng.uniform(-273.15, 1e7)
        f, g, off = (("from_celsius", "°C", 273.15) if kind == 0 else ("from_fahrenheit", "°F", 459.67))
        code = rng.choice([f"{g}({f}({plit(x)}))", f"{f}({plit(x)}) -> {g}", f"{plit(x)} {g} -> {g}"])
        r = es.eval(code)
        got = scalar(r)
        sh.judged()
        sh.nontrivial(code)
        if got is None or abs(got - x) > 1e-9 * (abs(x) + off):
            sh.violation({"code": code}, f"`{code}` = {r.get('val_text') or r.get('msg') or r.get('panic')}, expected {x!r}")
    elif kind in (2, 3):
        T = round(rng.uniform(0, 6000), rng.randint(0, 4))
        f, g, off = (("from_celsius", "°C", 273.15) if kind == 2 else ("from_fahrenheit", "°F", 459.67))
        # the same temperature written in kelvin, in a prefixed kelvin, or as an energy over the Boltzmann constant
        uname, ufac = rng.choice([("K", 1.0), ("K", 1.0), ("mK", 1e-3), ("µK", 1e-6), ("kK", 1e3), ("millikelvin", 1e-3), ("kelvin", 1.0)])
        tq = f"{plit(float(Fraction(T) / Fraction(ufac)))} {uname}"
        code = rng.choice([f"{f}({g}({tq})) -> K", f"{f}({tq} -> {g}) -> K", f"({tq} -> {g}) {g} -> K"])
        r = es.eval(code)
        got = scalar(r)
        sh.judged()
        sh.nontrivial(code)
        if got is None or abs(got - T) > 1e-9 * (abs(T) + off):
            sh.violation({"code": code}, f"`{code}` = {r.get('val_text') or r.get('msg') or r.get('panic')}, expected {T!r} K")
        if kind == 2:
            code2 = f"{tq} -> °C"
            r2 = es.eval(code2)
            got2 = scalar(r2)
            sh.judged()
            if got2 is None or abs(got2 - (T - 273.15)) > 1e-9 * (abs(T) + off):
                sh.violation({"code": code2}, f"`{code2}` = {r2.get('val_text') or r2.get('msg')}, expected {T - 273.15!r}")
    else:
        x = round(rng.uniform(-200, 2000), 3)
        code = f"{plit(x)} °C -> °F"
        r = es.eval(code)
        got = scalar(r)
        want = float(Fraction(x) * Fraction(9, 5) + 32)
        sh.judged()
        sh.nontrivial(code)
        if got is None or abs(got - want) > 1e-9 * (abs(want) + 460):
            sh.violation({"code": code}, f"`{code}` = {r.get('val_text') or r.get('msg')}, exact formula gives {want!r}")


def dt_ns(r):
    if r.get("ok") and r.get("value") and r["value"].get("t") == "dt":
        return int(r["value"]["ns"])
    return None


def check_dates(sh, es, rng):
    lit_, unix_us = rand_instant(rng)
    kind = rng.randrange(4)
    sh.judged()
    if kind == 0:
        code = f"from_unixtime({lit_} -> unixtime)"
        r = es.eval(code)
        ns = dt_ns(r)
        # the timestamp travels through an f64 count of seconds/microseconds
        tol_ns = max(1000, int(abs(unix_us) * 2 ** -52 * 4 * 1000))
        if ns is None or abs(ns - unix_us * 1000) > tol_ns:
            sh.violation({"code": code}, f"`{code}` = {r.get('val_text') or r.get('msg')} (ns={ns}), original instant is "
                                         f"{unix_us * 1000} ns, tolerance {tol_ns} ns")
    elif kind == 1:
        code = f"{lit_} -> unixtime"
        r = es.eval(code)
        got = scalar(r)
        want = unix_us / 1e6
        if got is None or abs(got - want) > max(1e-6, abs(want) * 1e-15 * 4) or r["value"]["unit_text"] != "unix_s":
            sh.violation({"code": code}, f"`{code}` = {r.get('val_text') or r.get('msg')}, the instant is {want!r} s after the epoch")
    elif kind == 2:
        code = f"from_julian_date(julian_date({lit_}))"
        r = es.eval(code)
        ns = dt_ns(r)
        # seconds since the Julian epoch as f64: 2.1e11 s + |unix|, 4 ulp + 1 us
        jd_s = abs(unix_us / 1e6 + 210866760000.0)
        tol_ns = int(jd_s * 2 ** -52 * 4 * 1e9) + 1000
        if ns is None or abs(ns - unix_us * 1000) > tol_ns:
            sh.violation({"code": code}, f"`{code}` = {r.get('val_text') or r.get('msg')} (ns={ns}), original instant is "
                                         f"{unix_us * 1000} ns, tolerance {tol_ns} ns")
    else:
        d = round(rng.uniform(0, 5373000), rng.randint(0, 6))
        code = f"julian_date(from_julian_date({plit(d)} days)) -> days"
        r = es.eval(code)
        got = scalar(r)
        if got is None or abs(got - d) > 1e-9 * max(1.0, abs(d)):
            sh.violation({"code": code}, f"`{code}` = {r.get('val_text') or r.get('msg')}, expected {d!r} days")
        # the Julian date of a known instant, independently: JD = unix days + 2440587.5
        code2 = f"julian_date({lit_}) -> days"
        sh.judged()
        r2 = es.eval(code2)
        got2 = scalar(r2)
        want2 = unix_us / 86400e6 + 2440587.5
        if got2 is None or abs(got2 - want2) > 1e-9 * max(1.0, abs(want2)):
            sh.violation({"code": code2}, f"`{code2}` = {r2.get('val_text') or r2.get('msg')}, the Julian date is {want2!r}")
        sh.nontrivial(code2)
    sh.nontrivial(code)


def check_transcendental(sh, es, rng):
    fwd, inv, lo, hi, pyf = rng.choice(TRANS)
    x = rng.uniform(lo, hi) if rng.random() < 0.8 else rng.choice([lo, hi, (lo + hi) / 2, lo + 1e-3, hi - 1e-3])
    x = float(repr(x))
    f_code = fwd.format(x=plit(x))
    code = inv.format(y=f_code)
    rs = es.batch([code, f_code])
    got, y = scalar(rs[0]), scalar(rs[1])
    sh.judged(3)
    sh.nontrivial(code)
    if got is None or y is None:
        sh.violation({"code": code}, f"`{code}` fails: {rs[0].get('msg') or rs[0].get('panic') or rs[1].get('msg')}")
        return
    if abs(got - x) > 1e-9 * max(1.0, abs(x)):
        sh.violation({"code": code}, f"`{code}` = {got!r}, expected {x!r}")
    want_y = pyf(x)
    if not math.isclose(y, want_y, rel_tol=1e-12, abs_tol=1e-300):
        sh.violation({"code": f_code}, f"`{f_code}` = {y!r}, libm reference gives {want_y!r}")
    # the other direction on the image
    code2 = fwd.format(x=inv.format(y=plit(y)))
    r2 = es.eval(code2)
    got2 = scalar(r2)
    if got2 is None or not math.isclose(got2, y, rel_tol=1e-9 * max(1.0, abs(x)), abs_tol=1e-300):
        sh.violation({"code": code2}, f"`{code2}` = {got2!r}, expected {y!r}")


def check_unit_list(sh, es, rng, db, pool):
    groups = [g for g in pool.groups.values() if len(g) >= 3]
    g = rng.choice(groups)
    n = rng.randint(1, 4)
    units = [rng.choice(g) for _ in range(n)]
    if rng.random() < 0.3:
        units.append(rng.choice(units))      # duplicate
    rng.shuffle(units)
    sps = [pool.primary(u) for u in units]
    x = random_magnitude(rng)
    q_unit = pool.primary(rng.choice(g))
    code = f"{plit(x)} {q_unit.text} |> unit_list([{', '.join(s.text for s in sps)}])"
    r = es.eval(code)
    sh.judged()
    case = {"code": code}
    if r.get("status") == "panic":
        sh.violation(case, f"`{code}`: panic {r['panic']['msg'][:200]}")
        return
    if not r.get("ok"):
        sh.violation(case, f"`{code}` fails: {r.get('stage')}/{r.get('kind')}: {r.get('msg')}")
        return
    items = r["value"].get("items")
    if items is None:
        sh.violation(case, f"`{code}` is not a list: {r.get('val_text')}")
        return
    distinct = []
    for u in units:
        if u not in distinct:
            distinct.append(u)
    # units of equal size are one unit for `unique`? no: unique compares quantities, equal-size units compare equal
    probs = []
    total = nmul(exact(x), atom_uexpr(db, q_unit).factor)
    parts_sum = Fraction(0)
    scale = abs(total)
    for it in items:
        parts_sum = nadd(parts_sum, db.base_value(it))
    if not (abs(to_dec(parts_sum) - to_dec(total)) <= to_dec(scale) * to_dec("1e-9")):
        probs.append(f"parts add up to {float(parts_sum)!r} (base units), the quantity is {float(total)!r}")
    for it in items[:-1]:
        v = qval(it)
        if abs(v - round(v)) > 1e-9 * max(1.0, abs(v)):
            probs.append(f"part {it['text']!r} is not a whole number of its unit")
    factors = []
    for it in items:
        if x != 0 and qval(it) != 0:
            if len(it["unit"]) != 1 or it["unit"][0]["name"] not in units:
                probs.append(f"part {it['text']!r} does not carry one of the requested units")
        if len(it["unit"]) == 1:
            factors.append(db.sunit_factor(it["unit"]))
    if x != 0 and len(factors) == len(items):
        if any(to_dec(factors[i]) < to_dec(factors[i + 1]) for i in range(len(factors) - 1)):
            probs.append("parts are not in descending unit order")
    sizes = []
    for u in units:
        f = db.base_factor(u)
        if not any(rel_close(f, g_, 1e-9) for g_ in sizes):   # equal-size units (turn, revolution) count once
            sizes.append(f)
    if len(items) != len(sizes):
        probs.append(f"{len(items)} parts for {len(sizes)} distinct unit sizes")
    if probs:
        sh.violation(case, f"`{code}` = {r.get('val_text')}: " + "; ".join(probs))
    sh.nontrivial(code)
    if len(sh.samples) < 3:
        sh.sample({"code": code, "result": r.get("val_text")})


def run_shard(sh, spec):
    w = get_worker()
    db = load_unitdb(w)
    pool = UnitPool(db)
    rng = rng_for(spec["seed"], "C23", spec["idx"])
    es = EvalSession(w, refresh=150)
    for k in range(spec["count"]):
        c = rng.random()
        try:
            if c < 0.2:
                check_temperature(sh, es, rng)
                sh.count_in("families", "temperature")
            elif c < 0.45:
                check_dates(sh, es, rng)
                sh.count_in("families", "dates")
            elif c < 0.75:
                check_transcendental(sh, es, rng)
                sh.count_in("families", "transcendental")
            else:
                check_unit_list(sh, es, rng, db, pool)
                sh.count_in("families", "unit_list")
        except (WorkerDied, WorkerTimeout) as e:
            sh.violation({"k": k}, f"interpreter crashed/hung: {e}")
            w.restart()
            es.reset()
    es.close()


def replay(sh, case):
    w = get_worker()
    sid = w.fork("p")
    r = w.eval(sid, case["code"], stmts=False)
    print(case["code"], "=>", r.get("val_text") or r.get("msg") or r.get("panic"))
    print("(the expectation is part of the generated case: rerun the tier with the recorded seed to judge)")


LEVEL_TEXT = ("Seeded random exploration of each documented inverse pair: the real interpreter evaluates f⁻¹(f(x)) (and f itself "
              "against independent references: exact formulas, a proleptic-Gregorian day count, libm) and a monitor applies "
              "conditioning-aware tolerances; unit_list results are checked structurally against the unit model.")
LEVEL_NOTE = ("Trusted: Python libm / integer calendar arithmetic as references, UnitDB, and the stated tolerances (f64 second "
              "counts limit date round trips to ~50 us around the Julian epoch distance).")
TECHNIQUE = "runtime monitoring: round-trip and reference-function monitors over random domain samples"
