"""Typed program generator: every expression carries its dimension vector (over base
dimensions, in Q) *by construction*; a mutator produces ill-dimensioned variants.
Used by C01 (dimension trace), C02 (accept/reject + reported types), C16, C15."""
from __future__ import annotations

from fractions import Fraction

from .unitdb import UnitDB, dim_add, dim_scale, dim_text
from .gen import UnitPool, plit

BASE_UNIT_FOR_DIM = {}     # filled by ProgGen.__init__: base dimension name -> list of unit spellings of exactly that dimension


def dim_key(d):
    return tuple(sorted(d.items()))


def dim_type_text(d: dict) -> str:
    """a type annotation denoting the dimension vector"""
    if not d:
        return "Scalar"
    num = [(k, v) for k, v in sorted(d.items()) if v > 0]
    den = [(k, -v) for k, v in sorted(d.items()) if v < 0]

    def p(k, v):
        if v == 1:
            return k
        if v.denominator == 1:
            return f"{k}^{v.numerator}"
        return f"{k}^({v.numerator}/{v.denominator})"
    n = " * ".join(p(k, v) for k, v in num) or "1"
    if not den:
        return n
    dd = " * ".join(p(k, v) for k, v in den)
    return f"{n} / ({dd})" if len(den) > 1 else f"{n} / {dd}"


class E:
    """expression: text, dimension vector (None for non-quantity), kind of type"""
    __slots__ = ("text", "dim", "ty", "sites", "uses_float_inexact")

    def __init__(self, text, dim, ty="q", sites=None, inexact=False):
        self.text, self.dim, self.ty = text, dim, ty
        self.sites = sites or []        # mutation sites: (start, end, dim) spans inside text where equality is required
        self.uses_float_inexact = inexact


class Fn:
    def __init__(self, name, params, ret, generic=None, text=None, annotated=True):
        self.name, self.params, self.ret, self.generic, self.text = name, params, ret, generic, text
        self.annotated = annotated     # params: list of ("dim", vector) | ("gen", letter); ret: callable(arg dims)->dim


class ProgGen:
    """state of one generated program (names defined so far)"""

    SIMPLE_DIMS = None

    def __init__(self, rng, db: UnitDB, pool: UnitPool, tag="a", allow_inexact=False, allow_zero=True, const_eval_edges=False):
        self.rng, self.db, self.pool, self.tag = rng, db, pool, tag
        self.allow_zero = allow_zero      # zero is dimension-polymorphic: mutation sites next to a zero are not sound
        self.n = 0
        self.vars = {}       # name -> dim
        self.fns = {}        # name -> Fn
        self.structs = {}    # name -> [(field, dim)]
        self.struct_vars = {}
        self.list_vars = {}
        self.units = {}      # name -> dim
        self.dims = {}       # derived dimension name -> dim vector
        self.ans_dim = None  # dimension of the last expression statement of this program (what `ans` / `_` hold)
        self.allow_inexact = allow_inexact
        self.const_eval_edges = const_eval_edges
        # units by exact dimension vector
        self.units_by_dim = {}
        for name in pool.names:
            self.units_by_dim.setdefault(dim_key(db.unit_dim(name)), []).append(name)
        self.base_dims = sorted({k for name in pool.names for k in db.unit_dim(name)})
        self.pure = {}       # base dimension -> units whose dimension is exactly that base dimension
        for bd in self.base_dims:
            us = self.units_by_dim.get(dim_key({bd: Fraction(1)}), [])
            if us:
                self.pure[bd] = us
        self.common = [d for d in (
            {"Length": 1}, {"Time": 1}, {"Mass": 1}, {"Length": 1, "Time": -1}, {"Length": 2}, {"Length": 3}, {},
            {"Length": 1, "Time": -2}, {"Mass": 1, "Length": 1, "Time": -2}, {"Mass": 1, "Length": 2, "Time": -2},
            {"Time": -1}, {"Current": 1}, {"Temperature": 1}, {"Mass": 1, "Length": -3}, {"Mass": 1, "Length": 2, "Time": -3},
            {"Current": 1, "Time": 1}, {"Length": -1},
        ) if all(k in self.pure for k in d)]
        self.common = [{k: Fraction(v) for k, v in d.items()} for d in self.common]

    def fresh(self, prefix):
        self.n += 1
        return f"{prefix}_{self.tag}{self.n}"

    # ---- units / literals -----------------------------------------------------------
    def unit_text(self, dim: dict) -> str:
        """a unit expression of exactly this dimension"""
        rng = self.rng
        if not dim:
            return rng.choice(["1", "percent", "1", "dozen"]) if rng.random() < 0.3 else ""
        whole = self.units_by_dim.get(dim_key(dim))
        own = [u for u, d in self.units.items() if d == dim]
        if own and rng.random() < 0.3:
            return rng.choice(own)
        if whole and rng.random() < 0.6:
            return self.pool.random_spelling(rng, rng.choice(whole), 0.3).text
        parts_n, parts_d = [], []
        for k, v in sorted(dim.items()):
            if k not in self.pure:
                return None
            sp = self.pool.random_spelling(rng, rng.choice(self.pure[k]), 0.3).text
            a = abs(v)
            t = sp if a == 1 else (f"{sp}^{a.numerator}" if a.denominator == 1 else f"{sp}^({a.numerator}/{a.denominator})")
            (parts_n if v > 0 else parts_d).append(t)
        n = " * ".join(parts_n) or "1"
        if not parts_d:
            return n
        return f"{n} / ({' * '.join(parts_d)})" if len(parts_d) > 1 else f"{n} / {parts_d[0]}"

    def literal(self, dim: dict, zero_ok=False) -> E:
        rng = self.rng
        x = rng.choice([1, 2, 3, 4, 5, 8, 10, 0.5, 2.5, 12, 100, 1.5])
        if zero_ok and self.allow_zero and rng.random() < 0.08:
            x = 0
        elif rng.random() < 0.04:
            # edges of the number range: subnormal, smallest normal, huge. Non-zero, so *not* dimension-polymorphic
            x = rng.choice([5e-324, 3e-310, 2.2e-308, 2.3e-308, 1e-300, 1e300, 1.7e308])
        if rng.random() < 0.1:
            x = -x
        u = self.unit_text(dim)
        if u is None:
            return None
        if u == "":
            return E(plit(x), dim)
        if rng.random() < 0.5 and " " not in u and "^" not in u and "/" not in u and "*" not in u:
            return E(f"({plit(x)} {u})", dim)
        return E(f"({plit(x)} * ({u}))", dim)

    def random_dim(self):
        rng = self.rng
        if rng.random() < 0.85:
            return dict(rng.choice(self.common))
        d = {}
        for _ in range(rng.randint(1, 3)):
            k = rng.choice(list(self.pure))
            d = dim_add(d, {k: Fraction(rng.choice([1, 1, 2, -1, -2, 3]))})
        return d

    # ---- exponents --------------------------------------------------------------------
    def exponent(self, need_integer_result_dims=None):
        """(text, exact rational, float_exact)"""
        rng = self.rng
        r = rng.random()
        if self.const_eval_edges and rng.random() < 0.5:
            # corners of the checker's compile-time exponent evaluation (powers inside the exponent, negative and
            # zero exponents, nested negation, division chains). Today's checker rejects a negative integer power
            # inside an exponent ("overflow in const-eval"); such programs are then simply not judged by C01.
            return rng.choice([
                ("(2^(-1))", Fraction(1, 2), True), ("(2^-1)", Fraction(1, 2), True), ("(4^-1 * 2)", Fraction(1, 2), True),
                ("(2^-2 * 8)", Fraction(2), True), ("((-2)^2)", Fraction(4), True), ("((-2)^3 + 9)", Fraction(1), True),
                ("(-(2^2) + 5)", Fraction(1), True), ("(-2^2 + 6)", Fraction(2), True), ("(2^0)", Fraction(1), True),
                ("(2^3^0)", Fraction(2), True), ("((1/2)^2 * 8)", Fraction(2), True), ("((2/3)^2 * 9/2)", Fraction(2), True),
                ("(1 / 2 / 2 * 8)", Fraction(2), True), ("(3 - 1 - 1)", Fraction(1), True), ("(2 - -1)", Fraction(3), True),
                ("(6 / 3 / 2 + 1)", Fraction(2), True), ("(-(-2))", Fraction(2), True), ("(2 * -1 + 4)", Fraction(2), True),
                ("(1/4 + 1/4)", Fraction(1, 2), True), ("(3/2 - 1)", Fraction(1, 2), True), ("(1 / (1/2))", Fraction(2), True),
                ("(2^2^-1)", Fraction(0), True) if False else ("(9^(1/2))", Fraction(3), True),
            ])
        if r < 0.45:
            k = rng.choice([2, 3, -1, -2, 0, 1, 4])
            return (str(k) if k >= 0 else f"({k})"), Fraction(k), True
        if r < 0.6:
            k = Fraction(rng.choice([1, 3, 5, -1]), rng.choice([2, 4]))
            return f"({k.numerator}/{k.denominator})", k, True
        if r < 0.72:
            k = Fraction(rng.choice([1, 2, 4, 5]), 3)
            return f"({k.numerator}/{k.denominator})", k, True      # 1/3 is computed as a rational by the checker
        if r < 0.84:
            a, b, c = rng.randint(1, 4), rng.randint(1, 3), rng.randint(1, 5)
            return f"({a} * {b} - {c})", Fraction(a * b - c), True
        if r < 0.92:
            return rng.choice([("0.5", Fraction(1, 2), True), ("1.5", Fraction(3, 2), True), ("0.25", Fraction(1, 4), True),
                               ("(2^2 - 1)", Fraction(3), True), ("(-0.5)", Fraction(-1, 2), True)])
        if self.allow_inexact:
            return rng.choice([("(0.1 + 0.2)", Fraction(3, 10), False), ("(0.7 - 0.4)", Fraction(3, 10), False),
                               ("(1.1 * 3)", Fraction(33, 10), False), ("0.3", Fraction(3, 10), True),
                               ("(0.1 * 3)", Fraction(3, 10), False)])
        return "2", Fraction(2), True

    # ---- expressions -------------------------------------------------------------------
    def expr(self, dim: dict, depth: int) -> E:
        """an expression of dimension `dim`"""
        rng = self.rng
        if depth <= 0:
            return self.leaf(dim)
        r = rng.random()
        if r < 0.22:
            a, b = self.expr(dim, depth - 1), self.expr(dim, depth - 1)
            if a is None or b is None:
                return self.leaf(dim)
            op = rng.choice(["+", "-"])
            text = f"({a.text} {op} {b.text})"
            sites = [(1 + s, 1 + e, d) for s, e, d in a.sites] + [(1, 1 + len(a.text), dim)]
            off = 1 + len(a.text) + 3
            sites += [(off + s, off + e, d) for s, e, d in b.sites] + [(off, off + len(b.text), dim)]
            return E(text, dim, sites=sites, inexact=a.uses_float_inexact or b.uses_float_inexact)
        if r < 0.40:
            d1 = self.random_dim()
            d2 = dim_add(dim, d1, -1) if rng.random() < 0.5 else None
            if d2 is not None:
                a, b = self.expr(d1, depth - 1), self.expr(d2, depth - 1)
                if a is None or b is None:
                    return self.leaf(dim)
                return self.wrap2(a, b, f"({a.text} * {b.text})", dim, 1, 1 + len(a.text) + 3)
            d2 = dim_add(d1, dim, -1)       # d1 / d2 = dim
            a, b = self.expr(d1, depth - 1), self.expr(d2, depth - 1)
            if a is None or b is None:
                return self.leaf(dim)
            return self.wrap2(a, b, f"({a.text} / {b.text})", dim, 1, 1 + len(a.text) + 3)
        if r < 0.52:
            et, k, exact = self.exponent()
            if k == 0:
                if dim:
                    return self.leaf(dim)
                a = self.expr(self.random_dim(), depth - 1)
                return E(f"({a.text}^{et})", {}, inexact=a.uses_float_inexact) if a else self.leaf(dim)
            base_dim = dim_scale(dim, 1 / k)
            a = self.expr(base_dim, depth - 1)
            if a is None:
                return self.leaf(dim)
            if k.denominator != 1 or not exact:
                a = E(f"abs({a.text})", base_dim, sites=[(4 + s, 4 + e, d) for s, e, d in a.sites], inexact=a.uses_float_inexact)
            return E(f"({a.text}^{et})", dim, sites=[(1 + s, 1 + e, d) for s, e, d in a.sites],
                     inexact=a.uses_float_inexact or (not exact and bool(base_dim)))
        if r < 0.60:
            a = self.expr(dim, depth - 1)
            u = self.unit_text(dim)
            if a is None or not u or u in ("1",):
                return self.leaf(dim)
            text = f"({a.text} -> ({u}))"
            return E(text, dim, sites=[(1 + s, 1 + e, d) for s, e, d in a.sites] + [(1, 1 + len(a.text), dim)],
                     inexact=a.uses_float_inexact)
        if r < 0.72:
            c = self.call(dim, depth - 1)
            if c is not None:
                return c
        if r < 0.80:
            d = self.random_dim()
            x, y = self.expr(d, depth - 1), self.expr(d, depth - 1)
            a, b = self.expr(dim, depth - 1), self.expr(dim, depth - 1)
            if None in (x, y, a, b):
                return self.leaf(dim)
            op = rng.choice(["<", ">", "<=", ">=", "==", "!="])
            head = f"(if {x.text} {op} {y.text} then "
            text = f"{head}{a.text} else {b.text})"
            sites = [(len(head), len(head) + len(a.text), dim),
                     (len(head) + len(a.text) + 6, len(head) + len(a.text) + 6 + len(b.text), dim),
                     (4, 4 + len(x.text), d)]
            return E(text, dim, sites=sites, inexact=any(t.uses_float_inexact for t in (x, y, a, b)))
        if r < 0.86:
            a = self.expr(dim, depth - 1)
            return E(f"(-{a.text})", dim, sites=[(2 + s, 2 + e, d) for s, e, d in a.sites], inexact=a.uses_float_inexact) if a else self.leaf(dim)
        return self.leaf(dim)

    def wrap2(self, a, b, text, dim, off_a, off_b):
        sites = [(off_a + s, off_a + e, d) for s, e, d in a.sites] + [(off_b + s, off_b + e, d) for s, e, d in b.sites]
        return E(text, dim, sites=sites, inexact=a.uses_float_inexact or b.uses_float_inexact)

    def leaf(self, dim: dict) -> E:
        rng = self.rng
        cands = [v for v, d in self.vars.items() if d == dim]
        if cands and rng.random() < 0.5:
            return E(rng.choice(cands), dim)
        sv = [(v, f) for v, s in self.struct_vars.items() for f, d in self.structs[s] if d == dim]
        if sv and rng.random() < 0.25:
            v, f = rng.choice(sv)
            return E(f"{v}.{f}", dim)
        lv = [v for v, d in self.list_vars.items() if d == dim]
        if lv and rng.random() < 0.25:
            v = rng.choice(lv)
            return E(rng.choice([f"head({v})", f"sum({v})", f"element_at(0, {v})", f"mean({v})", f"maximum({v})"]), dim)
        return self.literal(dim, zero_ok=True)

    def call(self, dim: dict, depth: int) -> E:
        """a call (library generic or generated function) whose result has dimension `dim`"""
        rng = self.rng
        opts = []
        # library generics
        opts.append(("abs", [dim]))
        opts.append(("sqrt", [dim_scale(dim, Fraction(2))]))
        opts.append(("cbrt", [dim_scale(dim, Fraction(3))]))
        if all(v.denominator == 1 and v.numerator % 2 == 0 for v in dim.values()):
            opts.append(("sqr", [dim_scale(dim, Fraction(1, 2))]))
        opts.append(("hypot2", [dim, dim]))
        opts.append(("min2", [dim, dim])) if False else None
        opts.append(("round_in_self", [dim]))
        if not dim:
            d = self.random_dim()
            opts.append(("value_of", [d]))
            opts.append(("ratio", [d, d]))
        opts.append(("unit_of_times", [dim]))
        opts.append(("sumlist", [dim]))
        # generated functions
        for f in self.fns.values():
            args = self.solve_call(f, dim)
            if args is not None:
                opts.append((f, args))
                opts.append((f, args))
        name, arg_dims = rng.choice(opts)
        args = [self.expr(d, depth) for d in arg_dims]
        if any(a is None for a in args):
            return None
        inexact = any(a.uses_float_inexact for a in args)
        if isinstance(name, Fn):
            text = f"{name.name}({', '.join(a.text for a in args)})"
            sites, off = [], len(name.name) + 1
            for a, (kind, _) in zip(args, name.params):
                if kind == "dim":
                    sites.append((off, off + len(a.text), a.dim))
                sites += [(off + s, off + e, d) for s, e, d in a.sites]
                off += len(a.text) + 2
            return E(text, dim, sites=sites, inexact=inexact)
        a0 = args[0].text
        if name == "round_in_self":
            u = self.unit_text(dim)
            if not u or u == "1":
                return E(f"abs({a0})", dim, inexact=inexact)
            return E(f"round_in({u}, {a0})", dim, inexact=inexact)
        if name == "ratio":
            return E(f"({a0} / {args[1].text})", dim, inexact=inexact)
        if name == "unit_of_times":
            return E(f"(unit_of({a0} + {self.literal(dim).text} * 1e6) * 3)", dim, inexact=inexact)
        if name == "sumlist":
            b = self.expr(dim, 0)
            return E(f"sum([{a0}, {b.text}])", dim, inexact=inexact)
        text = f"{name}({', '.join(a.text for a in args)})"
        sites = []
        if name == "hypot2":
            off = len(name) + 1
            sites = [(off, off + len(args[0].text), dim), (off + len(args[0].text) + 2, off + len(args[0].text) + 2 + len(args[1].text), dim)]
        if name in ("sqrt", "cbrt") and any(v.denominator != 1 for v in arg_dims[0].values()):
            pass
        if name in ("sqrt", "cbrt"):
            text = f"{name}(abs({a0}))"
        return E(text, dim, sites=sites, inexact=inexact)

    def solve_call(self, f: Fn, dim: dict):
        """argument dimensions such that f(args) has dimension `dim`, or None"""
        if f.generic is None:
            return [d for _, d in f.params] if f.ret(None) == dim else None
        # generic in one parameter D: ret = D^k * const
        k, const = f.generic
        if k == 0:
            return None
        D = dim_scale(dim_add(dim, const, -1), 1 / Fraction(k))
        out = []
        for kind, d in f.params:
            out.append(D if kind == "gen" else d)
        return out

    # ---- statements ----------------------------------------------------------------------
    def statement(self, depth=2):
        """returns dict(kind, text, name, dim, expr: E or None)"""
        rng = self.rng
        if self.ans_dim is not None and rng.random() < 0.22:
            return self.ans_statement()
        r = rng.random()
        dim = self.random_dim()
        if r < 0.30:
            e = self.expr(dim, depth)
            name = self.fresh("pv")
            ann = rng.random() < 0.45
            tt = self.type_name(dim)
            text = f"let {name}: {tt} = {e.text}" if ann else f"let {name} = {e.text}"
            off = len(text) - len(e.text)
            self.vars[name] = dim
            sites = [(off + s, off + e2, d) for s, e2, d in e.sites]
            if ann:
                sites.append((off, off + len(e.text), dim))
            return {"kind": "let", "text": text, "name": name, "dim": dim, "sites": sites, "inexact": e.uses_float_inexact,
                    "annotated": ann}
        if r < 0.50:
            return self.fn_statement(depth)
        if r < 0.58:
            if not dim:
                dim = {"Length": Fraction(1)} if "Length" in self.pure else dim
            e = self.expr(dim, 1)
            name = self.fresh("pu")
            ann = rng.random() < 0.5
            text = f"unit {name}: {self.type_name(dim)} = {e.text}" if ann else f"unit {name} = {e.text}"
            off = len(text) - len(e.text)
            sites = [(off + s, off + e2, d) for s, e2, d in e.sites] + ([(off, off + len(e.text), dim)] if ann else [])
            self.units[name] = dim
            return {"kind": "unit", "text": text, "name": name, "dim": dim, "sites": sites, "inexact": e.uses_float_inexact,
                    "annotated": ann}
        if r < 0.63:
            name = self.fresh("PD")
            self.dims[name] = dim
            return {"kind": "dimension", "text": f"dimension {name} = {dim_type_text(dim) if dim else 'Length / Length'}",
                    "name": name, "dim": dim, "sites": [], "inexact": False}
        if r < 0.70:
            sname, var = self.fresh("PS"), self.fresh("ps")
            d2 = self.random_dim()
            a, b = self.expr(dim, 1), self.expr(d2, 1)
            self.structs[sname] = [("fa", dim), ("fb", d2)]
            self.struct_vars[var] = sname
            head = f"struct {sname} {{ fa: {self.type_name(dim)}, fb: {self.type_name(d2)} }}\nlet {var} = {sname} {{ "
            flip = rng.random() < 0.5
            if flip:
                text = f"{head}fb: {b.text}, fa: {a.text} }}"
                o1 = len(head) + 4
                sites = [(o1, o1 + len(b.text), d2), (o1 + len(b.text) + 6, o1 + len(b.text) + 6 + len(a.text), dim)]
            else:
                text = f"{head}fa: {a.text}, fb: {b.text} }}"
                o1 = len(head) + 4
                sites = [(o1, o1 + len(a.text), dim), (o1 + len(a.text) + 6, o1 + len(a.text) + 6 + len(b.text), d2)]
            return {"kind": "struct", "text": text, "name": var, "dim": None, "sites": sites,
                    "inexact": a.uses_float_inexact or b.uses_float_inexact, "fields": [("fa", dim), ("fb", d2)]}
        if r < 0.77:
            var = self.fresh("pl")
            items = [self.expr(dim, 1) for _ in range(rng.randint(1, 4))]
            text = f"let {var} = ["
            sites = []
            for i, it in enumerate(items):
                if i:
                    text += ", "
                if i > 0:
                    sites.append((len(text), len(text) + len(it.text), dim))
                text += it.text
            text += "]"
            self.list_vars[var] = dim
            return {"kind": "list", "text": text, "name": var, "dim": dim, "sites": sites if len(items) > 1 else [],
                    "inexact": any(i.uses_float_inexact for i in items)}
        if r < 0.85:
            e = self.expr(dim, depth)
            return {"kind": "print", "text": f"print({e.text})", "name": None, "dim": dim,
                    "sites": [(6 + s, 6 + e2, d) for s, e2, d in e.sites], "inexact": e.uses_float_inexact}
        e = self.expr(dim, depth)
        self.ans_dim = dim
        return {"kind": "expr", "text": e.text, "name": None, "dim": dim, "sites": list(e.sites), "inexact": e.uses_float_inexact}

    def ans_statement(self):
        """a use of the last-result identifiers: `ans` / `_` have the type of the last expression statement, so
        `ans + e` needs an `e` of that dimension (equality site: e) and `let x: T = ans` needs T to be it"""
        rng = self.rng
        dim = self.ans_dim
        a = rng.choice(["ans", "_"])
        e = self.expr(dim, 1)
        op = rng.choice(["+", "-"])
        head, tail = (f"{a} {op} ", "") if rng.random() < 0.6 else ("", f" {op} {a}")
        form = rng.random()
        if form < 0.4:
            name = self.fresh("pa")
            ann = rng.random() < 0.4
            pre = f"let {name}: {self.type_name(dim)} = " if ann else f"let {name} = "
            self.vars[name] = dim
            kind = "let"
        elif form < 0.55:
            name, pre, kind = None, "print(", "print"
        else:
            name, pre, kind = None, "", "expr"
        off = len(pre) + len(head)
        text = pre + head + e.text + tail + (")" if kind == "print" else "")
        sites = [(off + s, off + e2, d) for s, e2, d in e.sites] + [(off, off + len(e.text), dim)]
        out = {"kind": kind, "text": text, "name": name, "dim": dim, "sites": sites, "inexact": e.uses_float_inexact,
               "uses_ans": True}
        if kind == "let":
            out["annotated"] = ann
        return out

    def type_name(self, dim):
        """annotation text: a registered dimension name of this vector, or the generic product form"""
        rng = self.rng
        own = [n for n, d in self.dims.items() if d == dim]
        if own and rng.random() < 0.4:
            return rng.choice(own)
        return dim_type_text(dim)

    def fn_statement(self, depth):
        rng = self.rng
        name = self.fresh("pf")
        c = rng.randrange(4)
        saved_vars = dict(self.vars)
        if c == 0:
            # fully annotated, concrete
            pd = [self.random_dim() for _ in range(rng.randint(1, 3))]
            rd = self.random_dim()
            params = [self.fresh("x") for _ in pd]
            for p, d in zip(params, pd):
                self.vars[p] = d
            body = self.expr(rd, depth)
            self.vars = saved_vars
            sig = ", ".join(f"{p}: {self.type_name(d)}" for p, d in zip(params, pd))
            ann_ret = rng.random() < 0.7
            head = f"fn {name}({sig})" + (f" -> {self.type_name(rd)}" if ann_ret else "") + " = "
            text = head + body.text
            sites = [(len(head) + s, len(head) + e, d) for s, e, d in body.sites]
            if ann_ret:
                sites.append((len(head), len(text), rd))
            f = Fn(name, [("dim", d) for d in pd], lambda _a, rd=rd: rd, None, text)
            self.fns[name] = f
            return {"kind": "fn", "text": text, "name": name, "dim": None, "sites": sites, "inexact": body.uses_float_inexact, "fn": f,
                    "ret_dim": rd, "param_dims": pd}
        if c == 1:
            # generic in D: body = x^k * const-expr
            k = rng.choice([1, 2, -1, 3, Fraction(1, 2)])
            const = self.random_dim() if rng.random() < 0.5 else {}
            p = self.fresh("x")
            cexpr = self.expr(const, 1)
            kt = str(k) if isinstance(k, int) and k >= 0 else (f"({k})" if isinstance(k, int) else f"({k.numerator}/{k.denominator})")
            xk = p if k == 1 else (f"abs({p})^{kt}" if not isinstance(k, int) else f"{p}^{kt}")
            body = f"({xk} * {cexpr.text})"
            # the same function written with other operators: quotients with the parameter in the denominator,
            # repeated factors, generic library calls (each shape exercises another inference path)
            alt = {1: [f"({cexpr.text} * {p})", f"({p} / (1 / {cexpr.text}))", f"(2 * {p} * {cexpr.text} / 2)"],
                   -1: [f"({cexpr.text} / {p})", f"(1 / {p} * {cexpr.text})", f"({cexpr.text} / (2 * {p}) * 2)", f"(1 / ({p} / {cexpr.text}))"],
                   2: [f"({p} * {p} * {cexpr.text})", f"(sqr({p}) * {cexpr.text})", f"({p} / (1 / {p}) * {cexpr.text})"],
                   3: [f"({p} * {p}^2 * {cexpr.text})", f"({p}^2 / (1 / {p}) * {cexpr.text})"],
                   Fraction(1, 2): [f"(sqrt(abs({p})) * {cexpr.text})", f"({cexpr.text} * abs({p}) / sqrt(abs({p})))"]}.get(k)
            if alt and rng.random() < 0.6:
                body = rng.choice(alt)
            ret_ann = "D" if k == 1 else f"D^{kt}"
            if const:
                ret_ann = f"{ret_ann} * {dim_type_text(const)}" if "/" not in dim_type_text(const) else f"{ret_ann} * ({dim_type_text(const)})"
            ann = rng.random() < 0.6
            text = f"fn {name}<D: Dim>({p}: D) -> {ret_ann} = {body}" if ann else f"fn {name}({p}) = {body}"
            f = Fn(name, [("gen", "D")], None, (Fraction(k), const), text, annotated=ann)
            self.fns[name] = f
            return {"kind": "fn", "text": text, "name": name, "dim": None, "sites": [], "inexact": cexpr.uses_float_inexact, "fn": f,
                    "generic": True}
        if c == 2:
            # unannotated, concrete use: parameters get their dimension from the body
            pd = [self.random_dim() for _ in range(rng.randint(1, 2))]
            rd = self.random_dim()
            params = [self.fresh("x") for _ in pd]
            # force parameter dimensions by adding them to a literal inside the body
            # (no literal zero here: it is dimension-polymorphic and would leave the parameter generic)
            lits = [self.literal(d).text for d in pd]
            forced = " + ".join(f"(({p} / {l}) - ({p} / {l}))" for p, l in zip(params, lits))
            for p, d in zip(params, pd):
                self.vars[p] = d
            body = self.expr(rd, depth)
            self.vars = saved_vars
            text = f"fn {name}({', '.join(params)}) = {body.text} * (1 + ({forced}))"
            off = len(f"fn {name}({', '.join(params)}) = ")
            f = Fn(name, [("dim", d) for d in pd], lambda _a, rd=rd: rd, None, text, annotated=False)
            self.fns[name] = f
            return {"kind": "fn", "text": text, "name": name, "dim": None, "sites": [(off + s, off + e, d) for s, e, d in body.sites],
                    "inexact": body.uses_float_inexact, "fn": f, "ret_dim": rd, "param_dims": pd}
        # where-clause + local variable
        pd = self.random_dim()
        rd = self.random_dim()
        p = self.fresh("x")
        loc = self.fresh("w")
        self.vars[p] = pd
        ld = self.random_dim()
        le = self.expr(ld, 1)
        self.vars[loc] = ld
        body = self.expr(rd, depth)
        self.vars = saved_vars
        text = f"fn {name}({p}: {self.type_name(pd)}) -> {self.type_name(rd)} = {body.text}\n  where {loc}: {self.type_name(ld)} = {le.text}"
        f = Fn(name, [("dim", pd)], lambda _a, rd=rd: rd, None, text)
        self.fns[name] = f
        return {"kind": "fn", "text": text, "name": name, "dim": None, "sites": [], "inexact": body.uses_float_inexact or le.uses_float_inexact,
                "fn": f, "ret_dim": rd, "param_dims": [pd]}

    # ---- mutation ---------------------------------------------------------------------------
    def wrong_dim_expr(self, dim):
        """an expression of a different, non-polymorphic dimension"""
        for _ in range(20):
            d = self.random_dim()
            if d != dim:
                lit = self.literal(d)
                if lit is not None and "(0" not in lit.text and lit.text not in ("0", "(-0)"):
                    return lit, d
        return None, None

    def mutate(self, stmt):
        """ill-dimensioned variant of a statement: one equality site replaced by another dimension;
        returns (text, description) or None"""
        if not stmt["sites"]:
            return None
        s, e, d = self.rng.choice(stmt["sites"])
        lit, wd = self.wrong_dim_expr(d)
        if lit is None:
            return None
        text = stmt["text"][:s] + lit.text + stmt["text"][e:]
        return text, f"replaced `{stmt['text'][s:e]}` ({dim_text(d)}) by `{lit.text}` ({dim_text(wd)})"
