"""UnitDB — an independent dimensional-analysis model.

Built from the `unitdb` observation of a session: the *definitions* (direct defining
factor and defining unit of every derived unit, declared dimension of every base unit)
are read from the session; all *arithmetic* (transitive base factors with exact
rationals, dimension vectors over Q, prefix factors) is the model's own.
"""
from __future__ import annotations

import math
from decimal import Decimal, getcontext
from fractions import Fraction

from .core import bits_to_float, qval

getcontext().prec = 60

# The model's own prefix table (SI brochure / IEC 80000-13), independent of numbat.
METRIC_PREFIXES = [
    # (long, short spellings, exponent of 10)
    ("quecto", ["q"], -30), ("ronto", ["r"], -27), ("yocto", ["y"], -24), ("zepto", ["z"], -21),
    ("atto", ["a"], -18), ("femto", ["f"], -15), ("pico", ["p"], -12), ("nano", ["n"], -9),
    ("micro", ["µ", "μ", "u"], -6), ("milli", ["m"], -3), ("centi", ["c"], -2), ("deci", ["d"], -1),
    ("deca", ["da"], 1), ("hecto", ["h"], 2), ("kilo", ["k"], 3), ("mega", ["M"], 6),
    ("giga", ["G"], 9), ("tera", ["T"], 12), ("peta", ["P"], 15), ("exa", ["E"], 18),
    ("zetta", ["Z"], 21), ("yotta", ["Y"], 24), ("ronna", ["R"], 27), ("quetta", ["Q"], 30),
]
BINARY_PREFIXES = [
    ("kibi", ["Ki"], 10), ("mebi", ["Mi"], 20), ("gibi", ["Gi"], 30), ("tebi", ["Ti"], 40),
    ("pebi", ["Pi"], 50), ("exbi", ["Ei"], 60), ("zebi", ["Zi"], 70), ("yobi", ["Yi"], 80),
    ("robi", ["Ri"], 90), ("quebi", ["Qi"], 100),
]


def prefix_factor(p) -> Fraction:
    """p = ["m", k] (10^k) or ["b", k] (2^k)"""
    kind, k = p[0], int(p[1])
    base = Fraction(10) if kind == "m" else Fraction(2)
    return base ** k


def frac(e) -> Fraction:
    """exponent sent as [numer, denom] strings"""
    return Fraction(int(e[0]), int(e[1]))


def to_dec(x) -> Decimal:
    if isinstance(x, Decimal):
        return x
    if isinstance(x, Fraction):
        return Decimal(x.numerator) / Decimal(x.denominator)
    return Decimal(x)


def npow(x, e: Fraction):
    """x ** e with x Fraction|Decimal; exact when e is an integer and x a Fraction"""
    if e.denominator == 1:
        if isinstance(x, Fraction):
            if x == 0 and e.numerator < 0:
                raise ZeroDivisionError
            return x ** e.numerator
        return x ** e.numerator
    xd = to_dec(x)
    if xd < 0:
        raise ValueError("root of negative")
    if xd == 0:
        return Decimal(0)
    return xd ** to_dec(e)


def nmul(a, b):
    if isinstance(a, Fraction) and isinstance(b, Fraction):
        return a * b
    return to_dec(a) * to_dec(b)


def ndiv(a, b):
    if isinstance(a, Fraction) and isinstance(b, Fraction):
        return a / b
    return to_dec(a) / to_dec(b)


def nadd(a, b):
    if isinstance(a, Fraction) and isinstance(b, Fraction):
        return a + b
    return to_dec(a) + to_dec(b)


def nneg(a):
    return -a


def rel_close(a, b, tol=1e-9) -> bool:
    """|a-b| <= tol*max(|a|,|b|) for Fraction/Decimal/float operands (inf/nan aware)"""
    if isinstance(a, float) or isinstance(b, float):
        fa, fb = float(a), float(b)
        if math.isnan(fa) or math.isnan(fb):
            return math.isnan(fa) and math.isnan(fb)
        if math.isinf(fa) or math.isinf(fb):
            return fa == fb
        a = Fraction(fa) if not isinstance(a, (Fraction, Decimal)) else a
        b = Fraction(fb) if not isinstance(b, (Fraction, Decimal)) else b
    if isinstance(a, Fraction) and isinstance(b, Fraction):
        d = abs(a - b)
        m = max(abs(a), abs(b))
        return d <= Fraction(tol).limit_denominator(10**15) * m
    da, db = to_dec(a), to_dec(b)
    d = abs(da - db)
    m = max(abs(da), abs(db))
    return d <= Decimal(repr(tol)) * m


def exact(x: float):
    """exact rational value of a finite float"""
    return Fraction(x)


def dim_add(a: dict, b: dict, sign=1) -> dict:
    r = dict(a)
    for k, v in b.items():
        nv = r.get(k, Fraction(0)) + sign * v
        if nv == 0:
            r.pop(k, None)
        else:
            r[k] = nv
    return r


def dim_scale(a: dict, e: Fraction) -> dict:
    if e == 0:
        return {}
    return {k: v * e for k, v in a.items()}


def dim_text(d: dict) -> str:
    if not d:
        return "Scalar"
    return " ".join(f"{k}^{v}" if v != 1 else k for k, v in sorted(d.items()))


def type_dim(t):
    """dimension vector of a structured type {"t":"dim","base":[[name,[n,d]],..]} or None"""
    if not isinstance(t, dict) or t.get("t") != "dim":
        return None
    return {name: frac(e) for name, e in t["base"] if frac(e) != 0}


class Unit:
    __slots__ = ("name", "is_base", "aliases", "metric", "binary", "abbreviation", "canonical",
                 "declared_dim", "def_factor", "def_unit", "self_unit", "base_repr", "readable")

    def __repr__(self):
        return f"Unit({self.name})"


class UnitDB:
    def __init__(self, obs):
        self.units = {}
        self.alias_to_unit = {}
        # the registry iterates a HashMap: sort, so that workloads are reproducible per seed
        for u in sorted(obs["units"], key=lambda u: u["name"]):
            U = Unit()
            U.name = u["name"]
            U.is_base = u["is_base"]
            U.aliases = [(a, s, l) for a, s, l in u["aliases"]]
            U.metric = u["metric"]
            U.binary = u["binary"]
            U.abbreviation = u["abbreviation"]
            U.canonical = u["canonical"]
            U.declared_dim = type_dim(u["dim"])
            U.readable = u.get("readable_type")
            U.base_repr = {n: frac(e) for n, e in u["base_repr"]}
            U.self_unit = u.get("self_unit")
            U.def_factor = None
            U.def_unit = None
            if not U.is_base and u.get("definition"):
                d = u["definition"][0]
                U.def_factor = exact(bits_to_float(d["factor"]["b"]))
                U.def_unit = d["unit"]
            self.units[U.name] = U
            for a, _, _ in U.aliases:
                self.alias_to_unit[a] = U.name
        self._factor_cache = {}
        self._dim_cache = {}

    # -- the model's own transitive arithmetic ---------------------------------------
    def base_factor(self, name):
        """how many base units one `name` is (Fraction, or Decimal if roots are involved)"""
        if name in self._factor_cache:
            return self._factor_cache[name]
        U = self.units[name]
        if U.is_base:
            r = Fraction(1)
        else:
            r = U.def_factor
            for f in U.def_unit:
                inner = nmul(prefix_factor(f["prefix"]), self.base_factor(f["name"]))
                r = nmul(r, npow(inner, frac(f["exp"])))
        self._factor_cache[name] = r
        return r

    def unit_dim(self, name) -> dict:
        """dimension vector of a unit *computed from its definition*"""
        if name in self._dim_cache:
            return self._dim_cache[name]
        U = self.units[name]
        if U.is_base:
            r = dict(U.declared_dim or {})
        else:
            r = {}
            for f in U.def_unit:
                r = dim_add(r, dim_scale(self.unit_dim(f["name"]), frac(f["exp"])))
        self._dim_cache[name] = r
        return r

    def base_units_of(self, name) -> dict:
        """base-unit exponents of a unit computed from its definition"""
        U = self.units[name]
        if U.is_base:
            return {name: Fraction(1)}
        r = {}
        for f in U.def_unit:
            r = dim_add(r, dim_scale(self.base_units_of(f["name"]), frac(f["exp"])))
        return r

    # -- structured units / quantities (as sent by the server) -----------------------
    def sunit_factor(self, sunit):
        r = Fraction(1)
        for f in sunit:
            inner = nmul(prefix_factor(f["prefix"]), self.base_factor(f["name"]))
            r = nmul(r, npow(inner, frac(f["exp"])))
        return r

    def sunit_dim(self, sunit) -> dict:
        r = {}
        for f in sunit:
            r = dim_add(r, dim_scale(self.unit_dim(f["name"]), frac(f["exp"])))
        return r

    def sunit_base_units(self, sunit) -> dict:
        r = {}
        for f in sunit:
            r = dim_add(r, dim_scale(self.base_units_of(f["name"]), frac(f["exp"])))
        return r

    def base_value(self, q):
        """value of a structured quantity in base units; float for non-finite magnitudes"""
        x = qval(q)
        if math.isnan(x) or math.isinf(x):
            return x
        return nmul(exact(x), self.sunit_factor(q["unit"]))

    def same_quantity(self, q1, q2, tol=1e-9) -> bool:
        return rel_close(self.base_value(q1), self.base_value(q2), tol)

    # -- enumeration helpers -------------------------------------------------------
    def by_dimension(self):
        """{frozen base-unit vector: [unit names]} — units convertible into each other"""
        groups = {}
        for name in self.units:
            key = tuple(sorted(self.base_units_of(name).items()))
            groups.setdefault(key, []).append(name)
        return groups

    def primary_alias(self, name):
        return self.units[name].aliases[0][0] if self.units[name].aliases else name


def sunit_key(sunit):
    """order-insensitive structural identity of a structured unit"""
    return tuple(sorted((f["name"], tuple(f["prefix"]), tuple(f["exp"])) for f in sunit))


def load_unitdb(worker, sid="p") -> UnitDB:
    obs = worker.call({"op": "unitdb", "sid": sid}, timeout=120)
    if not obs.get("ok"):
        raise RuntimeError(f"unitdb failed: {obs}")
    return UnitDB(obs)
