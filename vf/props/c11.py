"""C11 — comparisons do not depend on operand order."""
import math

from ..core import get_worker, rng_for, WorkerDied, WorkerTimeout
from ..unitdb import load_unitdb, rel_close, nmul, exact, to_dec
from ..gen import UnitPool, EvalSession, plit, random_uexpr, sibling_uexpr, random_magnitude

LEVEL = "exploration"
RULE = ("every ordered pair (a, b) of mutually convertible prelude units x magnitudes {1, 40.5, -3, 1e-7, 2.5e12} "
        "x right operand in {same magnitude in b, A converted into b (equal up to rounding), 1.5 x that (far), "
        "NaN b, 0 b, -0 b}, plus zeros of either sign on the left (literal 0, -0, `0 a - 0 a`, `0 a * (-3)`, "
        "`(-5) a * 0 -> b`) against zeros of either sign and non-zero values in b (all zeros are equal); all twelve comparisons of (A, B) and (B, A) are evaluated in one input and checked for "
        "mirror symmetry, negation, trichotomy, NaN-falseness and (away from the rounding boundary) against the "
        "exact model; thorough adds prefixed/compound units. distinct = (A text, B text); non-trivial = units of A "
        "and B differ in size")
EXHAUSTIVE = {"quick": False, "thorough": False}
FLOOR = {"quick": 5000, "thorough": 20000}
ASSUMPTIONS = ["model comparison is only used when the exact base values differ by more than 1e-9 relative; "
               "closer pairs are judged for self-consistency (symmetry) only"]
NSHARDS = 16
XS = [1.0, 40.5, -3.0, 1e-7, 2.5e12]
REL = ["eq_ab", "eq_ba", "ne_ab", "ne_ba", "lt_ab", "gt_ba", "le_ab", "ge_ba", "gt_ab", "lt_ba", "ge_ab", "le_ba"]


def shards(tier, seed):
    n_random = 0 if tier == "quick" else 40000
    return [{"idx": i, "n": NSHARDS, "seed": seed, "n_random": n_random // NSHARDS} for i in range(NSHARDS)]


def comparison_code(A, B):
    return (f"[({A}) == ({B}), ({B}) == ({A}), ({A}) != ({B}), ({B}) != ({A}), "
            f"({A}) < ({B}), ({B}) > ({A}), ({A}) <= ({B}), ({B}) >= ({A}), "
            f"({A}) > ({B}), ({B}) < ({A}), ({A}) >= ({B}), ({B}) <= ({A})]")


def judge(r, nan, model_cmp):
    """returns (list of problems, is_boundary_only) — model_cmp in {-1, 0(unknown/boundary), +1, None}"""
    if r.get("status") == "panic":
        return [f"panic: {r['panic']}"]
    if not r.get("ok"):
        return [f"comparison of same-dimension quantities fails: {r.get('stage')}/{r.get('kind')}: {r.get('msg')}"]
    items = r["value"]["items"]
    v = {k: it["v"] for k, it in zip(REL, items)}
    probs = []
    if v["eq_ab"] != v["eq_ba"]:
        probs.append(f"a==b is {v['eq_ab']} but b==a is {v['eq_ba']}")
    if v["lt_ab"] != v["gt_ba"]:
        probs.append(f"a<b is {v['lt_ab']} but b>a is {v['gt_ba']}")
    if v["gt_ab"] != v["lt_ba"]:
        probs.append(f"a>b is {v['gt_ab']} but b<a is {v['lt_ba']}")
    if v["le_ab"] != v["ge_ba"]:
        probs.append(f"a<=b is {v['le_ab']} but b>=a is {v['ge_ba']}")
    if v["ge_ab"] != v["le_ba"]:
        probs.append(f"a>=b is {v['ge_ab']} but b<=a is {v['le_ba']}")
    if v["ne_ab"] == v["eq_ab"]:
        probs.append(f"a!=b is {v['ne_ab']} and a==b is {v['eq_ab']}")
    if v["ne_ba"] == v["eq_ba"]:
        probs.append(f"b!=a is {v['ne_ba']} and b==a is {v['eq_ba']}")
    if nan:
        for k in REL[4:]:
            if v[k]:
                probs.append(f"ordering comparison {k} with NaN is true")
        if v["eq_ab"] or v["eq_ba"]:
            probs.append("equality with NaN is true")
    else:
        n = int(v["lt_ab"]) + int(v["eq_ab"]) + int(v["gt_ab"])
        if n != 1:
            probs.append(f"not exactly one of a<b ({v['lt_ab']}), a==b ({v['eq_ab']}), a>b ({v['gt_ab']})")
        n2 = int(v["lt_ba"]) + int(v["eq_ba"]) + int(v["gt_ba"])
        if n2 != 1:
            probs.append(f"not exactly one of b<a ({v['lt_ba']}), b==a ({v['eq_ba']}), b>a ({v['gt_ba']})")
        if v["le_ab"] != (v["lt_ab"] or v["eq_ab"]) and not probs:
            probs.append("a<=b differs from (a<b or a==b)")
        if v["ge_ab"] != (v["gt_ab"] or v["eq_ab"]) and not probs:
            probs.append("a>=b differs from (a>b or a==b)")
        if model_cmp == -1 and not (v["lt_ab"] and not v["eq_ab"] and not v["gt_ab"]):
            probs.append(f"model says a<b clearly, numbat: lt={v['lt_ab']} eq={v['eq_ab']} gt={v['gt_ab']}")
        if model_cmp == 1 and not (v["gt_ab"] and not v["eq_ab"] and not v["lt_ab"]):
            probs.append(f"model says a>b clearly, numbat: lt={v['lt_ab']} eq={v['eq_ab']} gt={v['gt_ab']}")
        if model_cmp == 2 and not v["eq_ab"]:
            probs.append("operands are exactly equal in the model (same unit, same literal) but a==b is false")
    return probs


def model_compare(va, vb):
    """-1/+1 when clearly ordered (relative gap > 1e-9), 0 at the boundary"""
    if rel_close(va, vb, 1e-9):
        return 0
    return -1 if to_dec(va) < to_dec(vb) else 1


def classify(sh, case, probs, boundary):
    """F5: order-dependence that only shows for operands equal up to rounding"""
    only_mirror = all((" but " in p) or p.startswith("not exactly one") or "differs from" in p for p in probs)
    if boundary and only_mirror:
        sh.known_hit("F5", case)
    else:
        sh.violation(case, f"`{case['A']}` vs `{case['B']}`: " + "; ".join(probs))


def run_case(sh, es, w, db, A, B, va, vb_kind, nontrivial):
    """vb_kind: ('exact', value) | ('approx', value) | ('nan',) """
    code = comparison_code(A, B)
    case = {"A": A, "B": B, "code": code}
    r = es.eval(code)
    sh.judged()
    nan = vb_kind[0] == "nan"
    if nan:
        mc, boundary = None, False
    elif vb_kind[0] == "zero":
        mc, boundary = 2, False
    elif vb_kind[0] == "approx":
        mc, boundary = 0, True
    else:
        mc = model_compare(va, vb_kind[1])
        boundary = mc == 0
    probs = judge(r, nan, mc)
    if probs:
        classify(sh, case, probs, boundary)
    if nontrivial:
        sh.nontrivial(A, B)
    sh.count_in("kinds", vb_kind[0] + ("_boundary" if boundary else ""))
    return r


def run_shard(sh, spec):
    w = get_worker()
    db = load_unitdb(w)
    pool = UnitPool(db)
    es = EvalSession(w, refresh=300)
    pairs = pool.ordered_pairs()
    for i, (a, b) in enumerate(pairs):
        if i % spec["n"] != spec["idx"]:
            continue
        sa, sb = pool.primary(a).text, pool.primary(b).text
        fa, fb = db.base_factor(a), db.base_factor(b)
        nt = fa != fb
        try:
            # five fixed magnitudes plus two seeded ones per pair (rounding-sensitive values differ from pair to pair:
            # whether `x * f / f == x` holds depends on both x and the factor)
            prng = rng_for(spec["seed"], "C11pair", i)
            extra = [round(prng.uniform(0.01, 1000), prng.choice([1, 2, 3, 5])), float(f"{prng.uniform(1, 10):.5g}e{prng.randint(-6, 9)}")]
            for x in list(XS) + extra:
                A = f"{plit(x)} {sa}"
                va = nmul(exact(x), fa)
                run_case(sh, es, w, db, A, f"{plit(x)} {sb}", va, ("exact", nmul(exact(x), fb)), nt)
                r = run_case(sh, es, w, db, A, f"{A} -> {sb}", va, ("approx", va), nt)
                run_case(sh, es, w, db, A, f"({A} -> {sb}) * 1.5", va, ("exact", nmul(va, exact(1.5))), nt)
                run_case(sh, es, w, db, A, f"NaN {sb}", va, ("nan",), nt)
                run_case(sh, es, w, db, A, f"0 {sb}", va, ("exact", exact(0.0)), nt)
                run_case(sh, es, w, db, A, f"(-0) {sb}", va, ("exact", exact(0.0)), nt)
                if x == 1:
                    # zeros of either sign on the left (as literals and as results of arithmetic: numbat's `0 u - 0 u` and
                    # `0 u * (-3)` are -0) against zeros of either sign and a non-zero value on the right: all zeros are
                    # equal, whatever their unit and sign
                    for Z in (f"0 {sa}", f"(-0) {sa}", f"(0 {sa} - 0 {sa})", f"(0 {sa} * (-3))", f"((-5) {sa} * 0 -> {sb})"):
                        zv = exact(0.0)
                        for ZB in (f"0 {sb}", f"(-0) {sb}", f"(0 {sb} - 0 {sb})"):
                            rz = run_case(sh, es, w, db, Z, ZB, zv, ("zero",), nt)
                        run_case(sh, es, w, db, Z, f"{plit(x)} {sb}", zv, ("exact", nmul(exact(x), fb)), nt)
                        run_case(sh, es, w, db, Z, f"(-3) {sb}", zv, ("exact", nmul(exact(-3.0), fb)), nt)
                if x == 40.5 and i % 97 == 0 and r.get("ok"):
                    sh.sample({"code": comparison_code(A, f"{A} -> {sb}"), "result": r.get("val_text")})
        except (WorkerDied, WorkerTimeout) as e:
            sh.violation({"A": sa, "B": sb}, f"interpreter crashed/hung comparing {a} with {b}: {e}")
            w.restart()
            es.reset()
    rng = rng_for(spec["seed"], "C11", spec["idx"])
    for k in range(spec["n_random"]):
        ua = random_uexpr(rng, pool)
        ub = sibling_uexpr(rng, pool, ua)
        x = random_magnitude(rng, allow_zero=False)
        A = f"{plit(x)} * ({ua.text})"
        va = nmul(exact(x), ua.factor)
        nt = ua.factor != ub.factor
        try:
            kind = rng.randrange(4)
            if kind == 0:
                y = random_magnitude(rng)
                run_case(sh, es, w, db, A, f"{plit(y)} * ({ub.text})", va, ("exact", nmul(exact(y), ub.factor)), nt)
            elif kind == 1:
                run_case(sh, es, w, db, A, f"{A} -> ({ub.text})", va, ("approx", va), nt)
            elif kind == 2:
                run_case(sh, es, w, db, A, f"NaN * ({ub.text})", va, ("nan",), nt)
            else:
                run_case(sh, es, w, db, A, f"({A} -> ({ub.text})) * 0.75", va, ("exact", nmul(va, exact(0.75))), nt)
        except (WorkerDied, WorkerTimeout) as e:
            sh.violation({"A": A, "B": ub.text}, f"interpreter crashed/hung: {e}")
            w.restart()
            es.reset()
    es.close()


def replay(sh, case):
    w = get_worker()
    sid = w.fork("p")
    r = w.eval(sid, case["code"], stmts=False)
    sh.judged()
    probs = judge(r, "NaN" in case["B"], None)
    if probs:
        sh.violation(case, "; ".join(probs))


LEVEL_TEXT = ("Exploration with an exhaustive core over all ordered pairs of convertible prelude units: twelve comparison "
              "results per operand pair are observed from the real VM and checked by a metamorphic monitor (mirror "
              "symmetry, negation, trichotomy, NaN) plus an exact-rational model away from the rounding boundary; the "
              "hard case `a` vs `a -> unit_b` (equal up to rounding) is generated on purpose for every pair.")
LEVEL_NOTE = ("Trusted: UnitDB model for the clear-margin cases; boundary cases (model gap <= 1e-9) are only required to be "
              "self-consistent. Known finding F5 is matched by its signature (mirror asymmetry only at the rounding boundary).")
TECHNIQUE = "runtime monitoring: metamorphic comparison monitor over exhaustive unit pairs + exact reference model"
