#!/usr/bin/env python3
"""Regenerates MANIFEST.json from the per-property modules (vf/props/cNN.py).
A property without a module is listed under not_applicable with the reason given here."""
import importlib
import json
import os
import subprocess
import sys

ROOT = os.path.dirname(os.path.dirname(os.path.abspath(__file__)))
sys.path.insert(0, ROOT)

PENDING_REASON = "no check registered yet in this revision of /verif (monitor under construction; see DESIGN.md)"


def main():
    props = [json.loads(l) for l in open(os.path.join(ROOT, "properties.jsonl"))]
    checks, na = [], []
    for p in props:
        pid = p["id"]
        path = os.path.join(ROOT, "vf", "props", f"{pid.lower()}.py")
        if not os.path.exists(path):
            na.append({"property_id": pid, "reason": PENDING_REASON})
            continue
        mod = importlib.import_module(f"vf.props.{pid.lower()}")
        if getattr(mod, "NOT_APPLICABLE", None):
            na.append({"property_id": pid, "reason": mod.NOT_APPLICABLE})
            continue
        checks.append({
            "property_id": pid,
            "quick_cmd": f"./check {pid} --tier quick",
            "thorough_cmd": f"./check {pid} --tier thorough",
            "evidence_file": f"/verif/evidence/{pid}.json",
            "replay_cmd_template": f"./check {pid} --replay {{path}}",
            "engine": "nbserve+vf",
            "level_claimed": {
                "category": getattr(mod, "LEVEL", "exploration"),
                "text": mod.LEVEL_TEXT,
                "design_ref": f"DESIGN.md §5 {pid}",
            },
            "level_note": mod.LEVEL_NOTE,
            "technique": mod.TECHNIQUE,
        })
    hooks = subprocess.run(["git", "-C", "/repo", "log", "--format=%H %s", "--grep=^verif:"],
                           capture_output=True, text=True).stdout.strip().splitlines()
    manifest = {
        "version": 1,
        "setup_cmd": "./check setup",
        "hooks": {
            "guard": "cargo feature `verif` of crate numbat (off by default)",
            "enable": "the harness crate /verif/server depends on numbat with features [\"html-formatter\", \"verif\"]; "
                      "`./check <ID>` runs `cargo build --offline --profile checked` of it against /repo's working tree",
            "baseline_off_cmd": "cd /repo && cargo test --workspace --no-fail-fast --offline",
            "source_commits": [h.split()[0] for h in hooks],
            "add_only": True,
        },
        "engines": [{
            "name": "nbserve+vf",
            "path": "/verif/server (Rust session server over numbat::Context with hooks) + /verif/vf (Python monitors/oracles)",
            "serves_properties": [c["property_id"] for c in checks],
            "kind_free_text": "runtime monitoring: real interpreter (checked build: overflow checks + debug assertions, "
                              "opcode-validity assertion, VM event trace) driven by generated/enumerated/hostile workloads; "
                              "reference-model, metamorphic and invariant monitors judge the recorded observations",
        }],
        "checks": checks,
        "not_applicable": na,
        "notes": "exit 0 held / exit 1 VIOLATION / exit 2 INCONCLUSIVE (never a verdict). Known findings: /verif/known_findings.jsonl. "
                 "VERIF_SEED selects the pseudo-random workloads; enumerated parts are seed-independent.",
    }
    with open(os.path.join(ROOT, "MANIFEST.json"), "w") as f:
        json.dump(manifest, f, indent=1)
    print(f"{len(checks)} checks, {len(na)} not_applicable")


if __name__ == "__main__":
    main()
