"""C15 — the echoed (pretty-printed) form of an input means the same as the input.

Metamorphic monitor: statement S is evaluated in one fork of a session, its echo P (the checker's pretty-printed
statement) in a second fork of the same pre-S state.  P must be accepted, have the same type, the same value / the
same effect on the session, and echo as P again."""
import itertools
import json
import math
import re

from ..core import get_worker, rng_for, bits_to_float, WorkerDied, WorkerTimeout
from ..unitdb import load_unitdb
from ..gen import UnitPool
from ..gen_prog import ProgGen
from ..gen_session import normalize_diag

LEVEL = "exploration"
RULE = ("E (enumerated): every (parent construct, child construct, operand position) combination over {+, -, *, /, per, "
        "juxtaposition, ^, ², unary -, !, factorial, comparison, &&, ||, ->, if/then/else, call, callable call, |>, field "
        "access, struct literal, list, string interpolation} at depth 2, typed so that the statement is accepted; "
        "R (seeded): random typed expressions of depth 3-5 over the same constructs, statements from the dimension-aware "
        "program generator (units, prefixes, conversions, generic functions), and definitions: let (annotated or not), fn "
        "(inferred, annotated, generic, where-clauses, function-typed parameters, decorators), unit (base/derived, every "
        "decorator, alias prefix modes), dimension (with alternatives), struct (plain/generic/empty), procedure calls, "
        "strings with every escape and format specifier, temperature sugar. For each accepted statement S with echo P: P is "
        "evaluated in a fork of the pre-S session and must be accepted, echo as P, have the same type, the same value "
        "(relative 1e-12) and leave the same names/signatures/probe results. distinct = statement text; non-trivial = the "
        "statement contains a nested construct or a definition")
EXHAUSTIVE = {"quick": False, "thorough": False}
FLOOR = {"quick": 3000, "thorough": 40000}
ASSUMPTIONS = ["numeric literals are small integers or short decimals, i.e. exactly representable at the printed precision",
               "values are compared with relative tolerance 1e-12 (the echo may re-associate + and *)"]
NSHARDS = 16

BASE = """let va = 3
let vb = 4
let vc = 0.5
fn vsq(x) = x * x
fn vdbl(x) = 2 x
fn vadd(x, y) = x + y
fn vpick(b) = if b then vsq else vdbl
struct VPt { x: Scalar, y: Scalar }
let vpt = VPt { x: 1, y: 2 }
let vpu = VPt { x: 5, y: 7 }
let vl = [1, 2, 3]
let vs = "abc"
let vlen = 2 m
let vdur = 4 s"""


def EXPECTED_KNOWN(tier):
    return ["F25", "F26", "F27", "F28", "F29", "F31", "F45"] + (["F32"] if tier == "thorough" else [])


def shards(tier, seed):
    n = 4000 if tier == "quick" else 80000
    out = [{"kind": "enum", "idx": i, "n": NSHARDS, "seed": seed} for i in range(NSHARDS)]
    out += [{"kind": "rand", "idx": i, "n": NSHARDS, "seed": seed, "count": n // NSHARDS} for i in range(NSHARDS)]
    return out


# ---------------------------------------------------------------------------------------------
# typed expression constructors: each returns source text.  Types: S scalar, B bool, T string, L list, P struct, Q length

def leaf(rng, ty):
    if ty == "S":
        return rng.choice(["1", "2", "3", "5", "0.5", "2.5", "va", "vb", "vc", "10", "vpt.x", "7"])
    if ty == "B":
        return rng.choice(["true", "false", "va < vb", "vb == 4"])
    if ty == "T":
        return rng.choice(['"abc"', "vs", '"x y"', '""', '"a\\\\nb"', '"q\\\\"', '"t\\tab"', '"{{b}}"', '"\\"q\\""'])
    if ty == "L":
        return rng.choice(["vl", "[1, 2]", "[va, vb, 3]", "[5]"])
    if ty == "P":
        return rng.choice(["vpt", "vpu", "VPt { x: 1, y: 2 }"])
    if ty == "Q":
        return rng.choice(["vlen", "2 m", "3 cm", "1.5 km", "5 ft"])
    if ty == "F":
        return rng.choice(["vsq", "vdbl", "sqr", "abs"])
    raise ValueError(ty)


# construct table: name -> (result type, operand types, template); operands are substituted as given (the generator
# adds the parentheses the *source* needs: every compound operand is parenthesised in S, so that S means what the tree
# says; the interesting question is which of them the echo drops)
CONSTRUCTS = {
    "add": ("S", ["S", "S"], "{0} + {1}"), "sub": ("S", ["S", "S"], "{0} - {1}"), "mul": ("S", ["S", "S"], "{0} * {1}"),
    "div": ("S", ["S", "S"], "{0} / {1}"), "per": ("S", ["S", "S"], "{0} per {1}"), "juxt": ("S", ["S", "S"], "{0} {1}"),
    "pow": ("S", ["S", "S"], "{0}^{1}"), "sq": ("S", ["S"], "{0}²"), "cube": ("S", ["S"], "{0}³"), "inv": ("S", ["S"], "{0}⁻¹"),
    "neg": ("S", ["S"], "-{0}"), "fact": ("S", ["S"], "{0}!"), "fact2": ("S", ["S"], "{0}!!"),
    "lt": ("B", ["S", "S"], "{0} < {1}"), "eq": ("B", ["S", "S"], "{0} == {1}"), "ne": ("B", ["S", "S"], "{0} != {1}"),
    "ge": ("B", ["S", "S"], "{0} >= {1}"), "and": ("B", ["B", "B"], "{0} && {1}"), "or": ("B", ["B", "B"], "{0} || {1}"),
    "not": ("B", ["B"], "!{0}"), "beq": ("B", ["B", "B"], "{0} == {1}"),
    "conv": ("S", ["S"], "{0} -> percent"), "conv2": ("S", ["S", "S"], "{0} -> {1} percent"),
    "if": ("S", ["B", "S", "S"], "if {0} then {1} else {2}"), "ifb": ("B", ["B", "B", "B"], "if {0} then {1} else {2}"),
    "call": ("S", ["S"], "vsq({0})"), "call2": ("S", ["S", "S"], "vadd({0}, {1})"), "sqrt": ("S", ["S"], "sqrt({0})"),
    "ccall": ("S", ["B", "S"], "(if {0} then vsq else vdbl)({1})"), "ccall2": ("S", ["B", "S"], "vpick({0})({1})"),
    "pipe": ("S", ["S"], "{0} |> vsq"), "pipe2": ("S", ["S", "S"], "{0} |> vadd({1})"),
    "field": ("S", ["P"], "{0}.x"), "mk": ("P", ["S", "S"], "VPt {{ y: {1}, x: {0} }}"), "ifp": ("P", ["B", "P", "P"], "if {0} then {1} else {2}"),
    "list": ("L", ["S", "S"], "[{0}, {1}]"), "head": ("S", ["L"], "head({0})"), "len": ("S", ["L"], "len({0})"),
    "cons": ("L", ["S", "L"], "cons({0}, {1})"), "map": ("L", ["F", "L"], "map({0}, {1})"), "ifl": ("L", ["B", "L", "L"], "if {0} then {1} else {2}"),
    "interp": ("T", ["S"], '"v={{{0}}}!"'), "interpf": ("T", ["S"], '"{{{0}:.2f}}"'), "strlen": ("S", ["T"], "str_length({0})"),
    "append": ("T", ["T", "T"], "str_append({0}, {1})"), "ift": ("T", ["B", "T", "T"], "if {0} then {1} else {2}"),
    "qadd": ("Q", ["Q", "Q"], "{0} + {1}"), "qmul": ("Q", ["S", "Q"], "{0} * {1}"), "qdiv": ("S", ["Q", "Q"], "{0} / {1}"),
    "qconv": ("Q", ["Q"], "{0} -> cm"), "qconv2": ("Q", ["Q", "Q"], "{0} -> ({1} -> inch)"), "ifq": ("Q", ["B", "Q", "Q"], "if {0} then {1} else {2}"),
    "qsq": ("S", ["Q"], "{0}² / m^2"), "qlt": ("B", ["Q", "Q"], "{0} < {1}"), "qneg": ("Q", ["Q"], "-{0}"),
}
BY_TYPE = {}
for _n, (_t, _ops, _tmpl) in CONSTRUCTS.items():
    BY_TYPE.setdefault(_t, []).append(_n)


def build(name, operands):
    """source text; compound operands are parenthesised"""
    _, _, tmpl = CONSTRUCTS[name]
    return tmpl.format(*operands)


def paren(text, compound):
    return f"({text})" if compound else text


def gen_expr(rng, ty, depth):
    """(text, is_compound)"""
    if depth <= 0 or ty == "F" or rng.random() < 0.15:
        t = leaf(rng, ty)
        return t, (" " in t and not t.startswith("[") and not t.startswith('"') and not t.startswith("VPt"))
    name = rng.choice(BY_TYPE[ty])
    _, ops, _ = CONSTRUCTS[name]
    args = []
    for i, ot in enumerate(ops):
        t, comp = gen_expr(rng, ot, depth - 1)
        if name in ("fact", "fact2") and (comp or not t.isdigit()):
            t, comp = rng.choice(["3", "4", "(2 + 1)", "(va)"]), False
        if name == "pow" and i == 1:
            t, comp = rng.choice([("2", False), ("3", False), ("(-1)", False), ("0.5", False), ("(1 + 1)", False), ("va", False), t and (t, comp)])
        args.append(paren(t, comp))
    return build(name, args), True


# ---------------------------------------------------------------------------------------------
# definitions

ESC_STRINGS = ['a\\\\nb', 'x\\\\\\\\y', 'ends with a backslash\\\\', 'bs-quote \\\\\\"', 'bs-t \\\\t', 'bs-brace \\\\{{', 'C:\\\\dir\\\\0',
               'plain', 'with \\"quotes\\"', 'back\\\\slash', 'new\\nline', 'tab\\there', 'brace \\{ not interp \\}', "uni ✓ ü",
               "it's", "a {va} b", "{va:.3f}", "{vlen -> cm}", "{vs}{vs}", "100 %"]
DECOR_STR = ["Foo bar", "x", "https://example.com/a?b=c&d=1", "has, comma", "paren (s)", "ünï", "quote ' single"]


def gen_definition(rng, k):
    """(statement text, probes)"""
    n = f"vq{k}"
    r = rng.random()
    if r < 0.14:
        ty = rng.choice(["S", "B", "T", "L", "P", "Q"])
        t, _ = gen_expr(rng, ty, rng.choice([1, 2, 3]))
        ann = {"S": "Scalar", "B": "Bool", "T": "String", "L": "List<Scalar>", "P": "VPt", "Q": "Length"}[ty]
        return (f"let {n}: {ann} = {t}" if rng.random() < 0.5 else f"let {n} = {t}"), [n]
    if r < 0.22:
        s = rng.choice(ESC_STRINGS)
        return f'let {n} = "{s}"', [n, f"str_length({n})"]
    if r < 0.42:
        body, _ = gen_expr(rng, "S", rng.choice([1, 2, 3]))
        body = body.replace("va", "x")
        form = rng.randrange(8)
        probes = [f"{n}(3)", f"{n}(0.5)"]
        if form == 0:
            return f"fn {n}(x) = {body}", probes
        if form == 1:
            return f"fn {n}(x: Scalar) -> Scalar = {body}", probes
        if form == 2:
            return f"fn {n}<D: Dim>(x: D, y: D) -> D = if x > y then x else y * 2", [f"{n}(1 m, 2 m)", f"{n}(3, 2)"]
        if form == 3:
            sub = rng.randrange(6)
            if sub == 0:
                return f"fn {n}(x) = y + z\n  where y = x * 2\n    and z = {body}", probes
            if sub == 1:      # locals of functions with several inferred type parameters
                return f"fn {n}(p, r) = q\n  where q = r", [f"{n}(1, 2 m)", f'{n}("a", true)']
            if sub == 2:
                return f"fn {n}(p, r) = q\n  where q = r * r\n    and t = p", [f"{n}(1, 2 m)", f'{n}("a", 3 s)']
            if sub == 3:
                return f"fn {n}(p, r) = q + p\n  where q = r * p", [f"{n}(2 s, 2 m)", f"{n}(1, 2)"]
            if sub == 4:
                return f"fn {n}(p, r, u) = if p then q else u\n  where q = r / u * u", [f"{n}(true, 2 m, 1 m)", f"{n}(false, 2, 4)"]
            return f"fn {n}(p) = q\n  where q = p", [f"{n}(1)", f'{n}("a")']
        if form == 4:
            return f"fn {n}(f: Fn[(Scalar) -> Scalar], x: Scalar) -> Scalar = f(x) + f({body})", [f"{n}(vsq, 2)"]
        if form == 5:
            return f"fn {n}<A>(xs: List<A>) -> A = head(tail(xs))", [f"{n}([1, 2, 3])", f'{n}(["a", "b"])']
        if form == 6:
            return f"fn {n}<D1: Dim, D2: Dim>(a: D1, b: D2) -> D1 * D2^2 / Time = a * b² / 2 s", [f"{n}(1 m, 2 kg)"]
        d = rng.choice(DECOR_STR)
        return (f'@name("{d}")\n@description("{rng.choice(DECOR_STR)}")\n@url("{rng.choice(DECOR_STR)}")\n'
                f'@example("{n}(2)", "{rng.choice(DECOR_STR)}")\nfn {n}(x: Scalar) -> Scalar = {body}'), probes
    if r < 0.66:
        form = rng.randrange(8)
        if form == 0:
            return f"unit {n}", [f"2 {n}"]
        if form == 1:
            return f"unit {n}: Length", [f"2 {n} + 1 {n}"]
        if form == 2:
            return f"unit {n} = {rng.choice(['2 m', '2.5 m/s', '3 kg m^2 / s^2', '12 inch', '1 / s'])}", [f"2 {n}", f"1 {n} -> {n}"]
        if form == 3:
            modes = rng.sample([f"{n}a: short", f"{n}b: long", f"{n}c: both", f"{n}d: none", f"{n}e"], rng.randint(1, 5))
            return f"@metric_prefixes\n@aliases({', '.join(modes)})\nunit {n}: Length = 2.5 m", \
                [f"1 {n}", f"1 kilo{n}"] + [f"3 {m.split(':')[0]}" for m in modes]
        if form == 4:
            return f"@binary_prefixes\n@metric_prefixes\nunit {n}: Scalar = 8", [f"1 kibi{n}", f"1 mega{n}"]
        if form == 5:
            return (f'@name("{rng.choice(DECOR_STR)}")\n@url("{rng.choice(DECOR_STR)}")\n'
                    f'@description("{rng.choice(DECOR_STR)}")\nunit {n}: Time = 90 s'), [f"2 {n} -> s"]
        if form == 6:
            return f"@aliases({n}s)\n@name(\"{rng.choice(DECOR_STR)}\")\nunit {n}", [f"3 {n}s"]
        return f"@abbreviation\nunit {n}: Mass = 2 kg", [f"1 {n}"]
    if r < 0.76:
        form = rng.randrange(4)
        D = f"Vq{k}D"
        if form == 0:
            return f"dimension {D}", [f"unit vqu{k}: {D}"]
        if form == 1:
            return f"dimension {D} = Length / Time^2", [f"let vqv{k}: {D} = 1 m/s^2"]
        if form == 2:
            return f"dimension {D} = Length * Length = Area", [f"let vqv{k}: {D} = 1 m^2"]
        return f"dimension {D} = Mass^(1/2) * Length^-1 / Time^(-3/2)", [f"let vqv{k}: {D} = 2 kg^(1/2) / m * s^(3/2)"]
    if r < 0.88:
        form = rng.randrange(5)
        S = f"Vq{k}S"
        if form == 0:
            return f"struct {S} {{ a: Scalar, b: Length }}", [f"{S} {{ a: 1, b: 2 m }}.b"]
        if form == 1:
            return f"struct {S} {{}}", [f"{S} {{}}"]
        if form == 2:
            return f"struct {S}<D: Dim> {{ x: D, y: D }}", [f"{S} {{ x: 1 m, y: 2 m }}.y"]
        if form == 3:
            return f"struct {S} {{ l: List<Scalar>, s: String, f: Fn[(Scalar) -> Scalar], p: VPt, v: Length / Time^2 }}", \
                [f"{S} {{ l: [1], s: \"\", f: vsq, p: vpt, v: 1 m/s^2 }}.v"]
        return f"struct {S}<A, D: Dim> {{ a: A, l: List<D> }}", [f"{S} {{ a: true, l: [1 m] }}.l"]
    form = rng.randrange(6)
    t, _ = gen_expr(rng, "S", 2)
    b, _ = gen_expr(rng, "B", 2)
    if form == 0:
        return f"print({t})", []
    if form == 1:
        return f'print("{rng.choice(ESC_STRINGS)}")', []
    if form == 2:
        return f"assert({b} || true)", []
    if form == 3:
        return f"assert_eq({t}, {t})", []
    if form == 4:
        return f"assert_eq({t}, {t}, 0.1)", []
    return f"type({t})", []


TEMPERATURE = ["from_celsius(20)", "20 °C", "from_fahrenheit(va + 60)", "celsius(300 K)", "300 K -> °C", "fahrenheit(290 K)",
               "(20 °C) -> °F", "from_celsius(va * 2) -> fahrenheit", "°C(273.15 K + vb K)", "(2 + 3) °C", "from_celsius(-5)",
               "[20 °C, 30 °C]", "from_celsius(20) - from_celsius(10)", "(25 °C -> °F) + 1", "-(-20 °C)", "-(5 °C)", "-20 °C", "-(-(-2 °F))",
               "-from_celsius(-20) + 1 K", "(-(-20 °C))^2", "-(20 °C -> °F)", "-(va °C)", "-(-va °F)", "0 K - (-20 °C)", "-(3 * 2 °C)", "[-(-20 °C), -5 °F]"]


# ---------------------------------------------------------------------------------------------
# comparison of observations

def values_close(a, b):
    if a is None or b is None:
        return a == b
    if a.get("t") != b.get("t"):
        return False
    t = a["t"]
    if t == "q":
        if a["unit"] != b["unit"]:
            return False
        x, y = bits_to_float(a["v"]["b"]), bits_to_float(b["v"]["b"])
        if x != x or y != y:
            return (x != x) == (y != y)
        if x == y:
            return True
        return abs(x - y) <= 1e-12 * max(abs(x), abs(y))
    if t == "list":
        return len(a["items"]) == len(b["items"]) and all(values_close(x, y) for x, y in zip(a["items"], b["items"]))
    if t == "struct":
        return a["name"] == b["name"] and len(a["fields"]) == len(b["fields"]) and \
            all(x[0] == y[0] and values_close(x[1], y[1]) for x, y in zip(a["fields"], b["fields"]))
    if t == "dt":
        return abs(int(a["ns"]) - int(b["ns"])) < 5_000_000_000 and a.get("tz") == b.get("tz")   # now() moves on
    return a == b


def same_type(t1, t2):
    if (t1 or {}).get("t") == "generic" and (t2 or {}).get("t") == "generic":
        if (t1.get("inner") or {}).get("t") in ("open", "dim_open") and (t2.get("inner") or {}).get("t") in ("open", "dim_open"):
            # value types like `forall A: Dim. A × Mass²` or `forall A B. A × B²` (products with polymorphic zeros)
            # and `forall A: Dim. A` have the same instances; which one is printed depends on how the product
            # associates
            return True
        if t1["n"] != t2["n"]:
            return False
        return norm_sup(t1["text"]) == norm_sup(t2["text"])
    return t1 == t2


def strip_type(text):
    return re.sub(r"\s*\[forall [^\]]*\]\s*$", "", text or "")


def obs_of(r):
    if r.get("status") == "panic":
        return {"panic": True}
    if r.get("ok"):
        return {"ok": True, "value": r.get("value"), "shown": r.get("out_text"), "prints": r.get("prints")}
    return {"ok": False, "stage": r.get("stage"), "kind": r.get("kind"), "msg": normalize_diag(r.get("msg"))}


def obs_same(a, b):
    if a.get("ok") and b.get("ok"):
        return values_close(a["value"], b["value"]) and a["prints"] == b["prints"]
    return a == b


# ---------------------------------------------------------------------------------------------

LONG_PREFIXES = ["quecto", "ronto", "yocto", "zepto", "atto", "femto", "pico", "nano", "micro", "milli", "centi", "deci", "deca",
                 "hecto", "kilo", "mega", "giga", "tera", "peta", "exa", "zetta", "yotta", "ronna", "quetta", "kibi", "mebi",
                 "gibi", "tebi", "pebi", "exbi", "zebi", "yobi", "robi", "quebi"]
_RESOLVE_CACHE = {}


def w_resolve(ident):
    """the prefix parser's reading of an identifier in the prelude session (hook H5)"""
    if ident not in _RESOLVE_CACHE:
        r = get_worker().call({"op": "resolve", "sid": "p", "idents": [ident]})
        res = (r.get("res") or [None])[0]
        _RESOLVE_CACHE[ident] = res
    return _RESOLVE_CACHE[ident]


SUP = {"⁰": "0", "¹": "1", "²": "2", "³": "3", "⁴": "4", "⁵": "5", "⁶": "6", "⁷": "7", "⁸": "8", "⁹": "9", "⁻": "-"}


def norm_sup(text):
    """`A³` and `A^3` (and `A⁻¹` / `A^(-1)`) are the same type"""
    out = re.sub(r"[⁻⁰¹²³⁴⁵⁶⁷⁸⁹]+", lambda m: "^" + "".join(SUP[c] for c in m.group(0)), text)
    return re.sub(r"\^\((-?\d+)\)", r"^\1", out)


def norm_fuse(text):
    """`2 × metre` and `2 metre` are the same product"""
    return re.sub(r"(?<=[0-9]) × (?=[^\d(\-])", " ", text)


def shape(t, flat):
    """syntax tree with identifiers anonymised; with `flat`, chains of + and of × become n-ary"""
    if not isinstance(t, list) or not t:
        return t
    k = t[0]
    if k in ("id", "unit"):
        return ["id"]
    if flat and k in ("add", "mul"):
        ops = []

        def collect(n):
            if isinstance(n, list) and n and n[0] == k:
                collect(n[1])
                collect(n[2])
            else:
                ops.append(shape(n, flat))
        collect(t)
        return [k + "_n"] + ops
    return [k] + [shape(c, flat) for c in t[1:]]


def reassociated(S, P):
    """True iff S and P have the same syntax tree up to the association of + and × chains, but not the same tree"""
    r = get_worker().call({"op": "parse", "codes": [S, P]}).get("res") or []
    if len(r) != 2 or not all(x.get("ok") for x in r):
        return False
    a, b = r[0]["stmts"], r[1]["stmts"]
    fa, fb = [shape(x, True) for x in a], [shape(x, True) for x in b]
    return fa == fb and [shape(x, False) for x in a] != [shape(x, False) for x in b]


def classify(sh, case, why, S, P, r2=None, P2=None, only_idempotence=False, value_differs=False):
    """known findings are matched by the printer site that produces them (predicates on the witness)"""
    if value_differs and reassociated(S, P):
        return sh.known_hit("F32", dict(case, why=why[:300]))
    if only_idempotence and P2 is not None:
        if norm_sup(P) == norm_sup(P2):
            return sh.known_hit("F26", dict(case, why=why[:300]))
        if norm_fuse(P) == norm_fuse(P2):
            return sh.known_hit("F27", dict(case, why=why[:300]))
        if norm_fuse(norm_sup(P)) == norm_fuse(norm_sup(P2)):
            sh.known_hit("F26", dict(case, why=why[:300]))
            return sh.known_hit("F27", dict(case, why=why[:300]))
    if r2 is not None and not r2.get("ok"):
        m = re.search(r"Unknown identifier '(\w+)'", r2.get("msg") or "")
        if m and m.group(1) not in S:
            for pre in LONG_PREFIXES:
                if m.group(1).startswith(pre) and len(m.group(1)) > len(pre):
                    rest = m.group(1)[len(pre):]
                    rr = w_resolve(rest)
                    if rr and rr.get("name") == rest:        # the rest is a unit name on its own (no prefix read into it)
                        return sh.known_hit("F31", dict(case, why=why[:300]))
        last = S.strip().splitlines()[-1]
        if re.fullmatch(r"unit \w+", last) and "Unknown entry" in (r2.get("msg") or "") and f"{last}: " in P:
            return sh.known_hit("F25", dict(case, why=why[:300]))
        if r2.get("stage") == "type" and re.match(r"fn \w+<[A-Z], [A-Z]", P) and re.search(r"\n\s+(where|and) \w+: ", P) \
                and not re.search(r"\n\s+(where|and) \w+: ", S):
            # F45: the printer names the type variables of each where-local on its own (A, B, ... in order of appearance in
            # that local's type), not with the names used in the function's signature. Witness predicate: the same echo
            # with the annotations of the locals removed is accepted.
            stripped = re.sub(r"(\n\s+(?:where|and) \w+): [^=\n]+ = ", r"\1 = ", P)
            w = get_worker()
            c = w.fork(case.get("base_session") or "c15base")
            try:
                r3 = w.eval(c, stripped, stmts=False)
            finally:
                w.drop(c)
            if r3.get("ok"):
                return sh.known_hit("F45", dict(case, why=why[:300]))
        if r2.get("stage") == "resolver" and ": forall " in P:
            return sh.known_hit("F28", dict(case, why=why[:300]))
        if r2.get("stage") == "resolver" and re.search(r"[\w)\]>²³] or [A-Z]", P):
            return sh.known_hit("F29", dict(case, why=why[:300]))
        if r2.get("stage") == "resolver" and re.search(r"[⁰¹²³⁴⁵⁶⁷⁸⁹]{2,}|⁰|[A-Za-z]⁻", P.split(" = ")[0]):
            return sh.known_hit("F30", dict(case, why=why[:300]))
    sh.violation(case, why)


def check_statement(sh, w, base, S, probes, meta):
    a = w.fork(base)
    b = None
    try:
        r1 = w.eval(a, S, stmts=True)
        if r1.get("status") == "panic":
            sh.count("panics_left_to_C08")
            return
        if not r1.get("ok"):
            sh.count_in("not accepted (not judged)", f"{r1.get('stage')}/{r1.get('kind')}")
            return
        if len(r1.get("stmts") or []) != 1:
            sh.count("not a single statement")
            return
        st = r1["stmts"][0]
        P = st["pretty"]
        case = {"S": S, "P": P, "probes": probes, "meta": meta, "signature": meta.get("shape", "")}
        sh.judged()
        sh.count_in("statement_kinds", st.get("kind") or meta.get("kind", "?"))
        b = w.fork(base)
        r2 = w.eval(b, P, stmts=True)
        if r2.get("status") == "panic":
            sh.violation(case, f"the echo of `{S}` makes the interpreter panic: `{P}`: {r2.get('panic')}")
            return
        if not r2.get("ok"):
            classify(sh, case, f"the echo of an accepted statement is rejected ({r2.get('stage')}/{r2.get('kind')}: "
                               f"{(r2.get('msg') or '')[:200]})\n  input: {S}\n  echo:  {P}", S, P, r2)
            return
        if len(r2.get("stmts") or []) != 1:
            classify(sh, case, f"the echo reads back as {len(r2.get('stmts') or [])} statements\n  input: {S}\n  echo:  {P}", S, P, r2)
            return
        st2 = r2["stmts"][0]
        problems = []
        value_differs = False
        if st2["pretty"] != P:
            problems.append(f"the echo does not echo as itself: `{P}` -> `{st2['pretty']}`")
        if not same_type(st.get("type"), st2.get("type")):
            problems.append(f"type differs: {json.dumps(st.get('type'))[:150]} vs {json.dumps(st2.get('type'))[:150]}")
        if not values_close(r1.get("value"), r2.get("value")):
            problems.append(f"value differs: {r1.get('val_text')!r} vs {r2.get('val_text')!r}")
            value_differs = True
        if r1.get("prints") != r2.get("prints"):
            problems.append(f"print output differs: {r1.get('prints')} vs {r2.get('prints')}")
        for p in probes:
            oa, ob = obs_of(w.eval(a, p, stmts=False)), obs_of(w.eval(b, p, stmts=False))
            sh.judged()
            if not obs_same(oa, ob):
                problems.append(f"after the definition `{p}` gives {json.dumps(oa)[:200]} with the input but {json.dumps(ob)[:200]} with its echo")
                value_differs = True
                break
        if probes:
            na, nb = w.call({"op": "names", "sid": a}), w.call({"op": "names", "sid": b})
            for key in ("variables", "functions", "units", "dimensions"):
                # function signatures are compared through the statement's type and the probe calls: the printed
                # signature of one scheme is not unique (`(x: A^(1/2)) -> A^-1` and `(x: A) -> A^-2` are the same)
                nm = (lambda x: x[0] if isinstance(x, list) else x) if key == "functions" else (lambda x: x)
                sa, sb_ = {norm_sup(json.dumps(nm(x), ensure_ascii=False)) for x in na.get(key) or []}, \
                    {norm_sup(json.dumps(nm(x), ensure_ascii=False)) for x in nb.get(key) or []}
                if sa != sb_:
                    problems.append(f"session {key} differ: only input {sorted(sa - sb_)[:2]}, only echo {sorted(sb_ - sa)[:2]}")
                    break
        if problems:
            only_idem = len(problems) == 1 and problems[0].startswith("the echo does not echo as itself")
            classify(sh, case, "; ".join(problems[:3]) + f"\n  input: {S}\n  echo:  {P}", S, P, None, st2["pretty"], only_idem,
                     value_differs and len(problems) == 1)
        if meta.get("nontrivial", True):
            sh.nontrivial(S)
        if meta.get("sample"):
            sh.sample({"input": S, "echo": P})
    finally:
        for s in (a, b):
            if s:
                try:
                    w.drop(s)
                except Exception:
                    pass


def run_enum(sh, w, base, spec):
    rng = rng_for(0, "C15enum", 0)      # leaves only; the enumeration is fixed
    k = 0
    for parent, (pty, pops, _) in CONSTRUCTS.items():
        for pos, oty in enumerate(pops):
            for child in BY_TYPE.get(oty, []):
                k += 1
                if k % spec["n"] != spec["idx"]:
                    continue
                _, cops, _ = CONSTRUCTS[child]
                cargs = [leaf(rng, t) for t in cops]
                if child in ("fact", "fact2"):
                    cargs = ["3"]
                ctext = build(child, [paren(x, " " in x and not x[0] in '["V') for x in cargs])
                args = []
                for i, t in enumerate(pops):
                    if i == pos:
                        args.append(f"({ctext})")
                    else:
                        x = leaf(rng, t)
                        if parent in ("fact", "fact2"):
                            x = "3"
                        args.append(paren(x, " " in x and not x[0] in '["V'))
                if parent in ("fact", "fact2") and child not in ("add", "mul", "sq", "fact", "call", "if", "len", "head"):
                    pass
                S = build(parent, args)
                check_statement(sh, w, base, S, [], {"shape": f"{parent}[{pos}]<-{child}", "kind": "expr",
                                                     "sample": k % 997 == 0})
                sh.count("enumerated (parent, position, child) combinations")
    # the temperature sugar (`x °C` is from_celsius(x), a leading minus moves into the argument): every listed form
    for j, S in enumerate(TEMPERATURE):
        if j % spec["n"] == spec["idx"]:
            check_statement(sh, w, base, S, [], {"shape": "temperature", "kind": "expr"})
            sh.count("temperature sugar forms")


def run_rand(sh, w, base, spec):
    rng = rng_for(spec["seed"], "C15", spec["idx"])
    db = load_unitdb(w)
    pool = UnitPool(db)
    for k in range(spec["count"]):
        r = rng.random()
        kk = f"{spec['idx']}x{k}"
        if r < 0.40:
            ty = rng.choice(["S", "S", "B", "T", "L", "P", "Q"])
            S, _ = gen_expr(rng, ty, rng.choice([2, 3, 3, 4, 5]))
            check_statement(sh, w, base, S, [], {"shape": "random " + ty, "kind": "expr", "sample": k % 500 == 0})
        elif r < 0.75:
            S, probes = gen_definition(rng, kk)
            check_statement(sh, w, base, S, probes, {"shape": S.split("(")[0].split()[0] if S[0] != "@" else "decorated " + S.split("\n")[-1].split()[0],
                                                     "kind": "definition", "sample": k % 300 == 0})
        elif r < 0.80:
            S = rng.choice(TEMPERATURE)
            check_statement(sh, w, base, S, [], {"shape": "temperature", "kind": "expr"})
        else:
            pg = ProgGen(rng, db, pool, tag=f"e{kk}", allow_inexact=False, allow_zero=True)
            try:
                s = pg.statement(depth=rng.choice([1, 2, 3]))
            except (ArithmeticError, ValueError, TypeError):
                sh.count("generator_discard")
                continue
            if not s:
                continue
            text = s["text"]
            m = re.match(r"(let|fn|unit|dimension|struct)\s+(\w+)", text)
            probes = [m.group(2)] if m and m.group(1) == "let" else []
            check_statement(sh, w, base, text, probes, {"shape": "dimensionful " + (m.group(1) if m else "expr"), "kind": "prog"})


def run_shard(sh, spec):
    w = get_worker()
    base = "c15base"
    w.call({"op": "drop", "sid": base})
    w.fork("p", sid=base)
    r = w.eval(base, BASE, stmts=False)
    if not r.get("ok"):
        sh.inconclusive_case(f"harness exception: base definitions rejected: {r.get('msg')}")
        return
    try:
        if spec["kind"] == "enum":
            run_enum(sh, w, base, spec)
        else:
            run_rand(sh, w, base, spec)
    except (WorkerDied, WorkerTimeout) as e:
        sh.inconclusive_case(f"worker died: {e}")
        w.restart()


def replay(sh, case):
    w = get_worker()
    base = "c15base"
    w.call({"op": "drop", "sid": base})
    w.fork("p", sid=base)
    w.eval(base, BASE, stmts=False)
    check_statement(sh, w, base, case["S"], case.get("probes", []), case.get("meta", {}))
    print("input:", case["S"])
    print("echo: ", case["P"])


LEVEL_TEXT = ("Exploration with an enumerated core (every parent/child/position combination of the expression constructs at depth "
              "2) plus seeded random expressions and definitions of every statement kind: the real checker's echo of each "
              "accepted statement is fed back to the real interpreter in a fork of the same session state; a metamorphic "
              "monitor compares acceptance, echo-of-echo, type, value and the effect of definitions (probe calls, names).")
LEVEL_NOTE = ("Trusted: Context::clone for the twin state; relative tolerance 1e-12 on values; the statement's echo is "
              "Statement::pretty_print rendered as plain text (what the CLI shows).")
TECHNIQUE = "runtime monitoring: metamorphic round-trip monitor (statement vs its echo) in forked sessions"
