"""Reference semantics for a subset of numbat (C09): typed program generator, renderer and a direct
big-step evaluator that never looks at bytecode.

Semantics implemented (from the book and confirmed by probing the unchanged tree):
  * numbers are IEEE doubles, `+ - * /` are the double operations; booleans; strings; structs; lists; function values
  * every name refers to its innermost binding *at the place where it is written*: a function body sees the
    globals and functions that existed when the function was defined (plus itself), parameters shadow globals,
    `where` bindings are evaluated in order and shadow parameters
  * `if` evaluates only the chosen branch; `&&` and `||` evaluate both operands
  * call arguments, list elements, string parts and struct fields are evaluated left to right in source order;
    a struct value lists its fields in declaration order whatever the order in the literal
  * `x |> f` is `f(x)`, `x |> f(a, b)` is `f(a, b, x)`
  * the value of an input is the value of its last expression statement
"""
from __future__ import annotations

NUM, BOOL, STR = ("num",), ("bool",), ("str",)


def LIST(t):
    return ("list", t)


def FN(args, ret):
    return ("fn", tuple(args), ret)


STRUCTS = {
    "VfP": [("x", NUM), ("y", NUM)],
    "VfR": [("n", NUM), ("ok", BOOL), ("s", STR), ("l", LIST(NUM))],
    "VfN": [("p", ("struct", "VfP")), ("k", NUM)],
}
STRUCT_DEFS = ("struct VfP { x: Scalar, y: Scalar }\n"
               "struct VfR { n: Scalar, ok: Bool, s: String, l: List<Scalar> }\n"
               "struct VfN { p: VfP, k: Scalar }")


def type_text(t):
    if t == NUM:
        return "Scalar"
    if t == BOOL:
        return "Bool"
    if t == STR:
        return "String"
    if t[0] == "list":
        return f"List<{type_text(t[1])}>"
    if t[0] == "struct":
        return t[1]
    if t[0] == "fn":
        return f"Fn[({', '.join(type_text(a) for a in t[1])}) -> {type_text(t[2])}]"
    raise ValueError(t)


# builtin functions: name -> (arg types, result type); "A" marks the generic element type (instantiated by the generator)
BUILTINS_NUM = {
    "abs": ([NUM], NUM), "sqr": ([NUM], NUM),
    "len": ([LIST(NUM)], NUM), "head": ([LIST(NUM)], NUM), "sum": ([LIST(NUM)], NUM), "element_at": ([NUM, LIST(NUM)], NUM),
    "str_length": ([STR], NUM),
}
BUILTINS_LIST = {
    "tail": ([LIST(NUM)], LIST(NUM)), "cons": ([NUM, LIST(NUM)], LIST(NUM)), "cons_end": ([NUM, LIST(NUM)], LIST(NUM)),
    "concat": ([LIST(NUM), LIST(NUM)], LIST(NUM)), "reverse": ([LIST(NUM)], LIST(NUM)), "take": ([NUM, LIST(NUM)], LIST(NUM)),
    "drop": ([NUM, LIST(NUM)], LIST(NUM)), "range": ([NUM, NUM], LIST(NUM)), "sort": ([LIST(NUM)], LIST(NUM)),
    "map": ([FN([NUM], NUM), LIST(NUM)], LIST(NUM)), "filter": ([FN([NUM], BOOL), LIST(NUM)], LIST(NUM)),
}
BUILTINS_OTHER = {
    "is_empty": ([LIST(NUM)], BOOL), "str_append": ([STR, STR], STR), "str_prepend": ([STR, STR], STR),
    "foldl": ([FN([NUM, NUM], NUM), NUM, LIST(NUM)], NUM),
}
BUILTINS = {**BUILTINS_NUM, **BUILTINS_LIST, **BUILTINS_OTHER}


# ---------------------------------------------------------------------------------------------
# rendering

def esc(s):
    return s.replace("\\", "\\\\").replace('"', '\\"').replace("{", "{{").replace("}", "}}").replace("\n", "\\n")


def num_text(v):
    if v == int(v) and abs(v) < 1e15:
        return str(int(v))
    return repr(float(v))


def render(e):
    k = e[0]
    if k == "num":
        return num_text(e[1])
    if k == "bool":
        return "true" if e[1] else "false"
    if k == "str":
        out = '"'
        for p in e[1]:
            out += esc(p[1]) if p[0] == "lit" else "{" + render(p[1]) + "}"
        return out + '"'
    if k in ("var", "fnref"):
        return e[1]
    if k == "bin":
        return f"({render(e[2])} {e[1]} {render(e[3])})"
    if k == "neg":
        return f"(-{render(e[1])})"
    if k == "fact":
        return f"({render(e[2])}{'!' * e[1]})"
    if k == "ans":
        return e[1]
    if k == "not":
        return f"(!{render(e[1])})"
    if k == "if":
        return f"(if {render(e[1])} then {render(e[2])} else {render(e[3])})"
    if k == "call":
        return f"{e[1]}({', '.join(render(a) for a in e[2])})"
    if k == "callv":
        return f"({render(e[1])})({', '.join(render(a) for a in e[2])})"
    if k == "pipe":
        rhs = e[2] + (f"({', '.join(render(a) for a in e[3])})" if e[3] else "")
        return f"({render(e[1])} |> {rhs})"
    if k == "mk":
        return e[1] + " { " + ", ".join(f"{f}: {render(x)}" for f, x in e[2]) + " }"
    if k == "field":
        return f"{render(e[1])}.{e[2]}"
    if k == "list":
        return "[" + ", ".join(render(x) for x in e[1]) + "]"
    raise ValueError(k)


def render_stmt(s):
    k = s[0]
    if k == "let":
        return f"let {s[1]} = {render(s[2])}"
    if k == "print":
        return f"print({render(s[1])})"
    if k == "expr":
        return render(s[1])
    if k == "fn":
        _, name, params, ret, body, wheres, annotated = s
        if annotated:
            ps = ", ".join(f"{n}: {type_text(t)}" for n, t in params)
            head = f"fn {name}({ps}) -> {type_text(ret)} = {render(body)}"
        else:
            head = f"fn {name}({', '.join(n for n, _ in params)}) = {render(body)}"
        for i, (n, x) in enumerate(wheres):
            head += ("\n  where " if i == 0 else "\n    and ") + f"{n} = {render(x)}"
        return head
    raise ValueError(k)


# ---------------------------------------------------------------------------------------------
# evaluation

class EvalError(Exception):
    """the program fails at run time (empty list, ...)"""


class Unprintable(Exception):
    """formatting of this value is outside the modelled subset (case is discarded)"""


class Closure:
    def __init__(self, name, params, body, wheres, nglobals, nfuncs):
        self.name, self.params, self.body, self.wheres = name, params, body, wheres
        self.nglobals, self.nfuncs = nglobals, nfuncs      # what was visible at the definition

    def __repr__(self):
        return f"<fn {self.name}>"


class Builtin:
    def __init__(self, name):
        self.name = name


def fmt_num(v):
    if v == v and v not in (float("inf"), float("-inf")) and v != int(v):
        # short decimals (at most 6 significant digits, no exponent) are shown as they are
        r = repr(abs(v))
        sig = r.replace(".", "").lstrip("0")
        if "e" not in r and len(sig) <= 6 and 1e-3 <= abs(v) < 1e5:
            return ("-" if v < 0 else "") + r
        raise Unprintable()
    if v != v or v in (float("inf"), float("-inf")) or abs(v) >= 1e15:
        raise Unprintable()
    if v == 0 and str(v).startswith("-"):
        raise Unprintable()
    digits = str(int(abs(v)))
    if len(digits) >= 6:
        parts = []
        while digits:
            parts.insert(0, digits[-3:])
            digits = digits[:-3]
        digits = "_".join(parts)
    return ("-" if v < 0 else "") + digits


def fmt_value(v, top=True):
    if isinstance(v, bool):
        return "true" if v else "false"
    if isinstance(v, float):
        return fmt_num(v)
    if isinstance(v, str):
        if top:
            return v
        raise Unprintable()
    if isinstance(v, list):
        return "[" + ", ".join(fmt_value(x, False) for x in v) + "]"
    raise Unprintable()


class Machine:
    def __init__(self):
        self.globals = []      # (name, value)
        self.funcs = []        # (name, Closure)
        self.prints = []
        self.steps = 0
        self.depth = 0
        self.last = None       # value of the last top-level expression statement (`ans`, `_`)

    def lookup_fn(self, name, nfuncs):
        for i in range(nfuncs - 1, -1, -1):
            if self.funcs[i][0] == name:
                return self.funcs[i][1]
        if name in BUILTINS:
            return Builtin(name)
        raise KeyError(name)

    def lookup_var(self, name, locals_, nglobals, nfuncs):
        for n, v in reversed(locals_):
            if n == name:
                return v
        for i in range(nglobals - 1, -1, -1):
            if self.globals[i][0] == name:
                return self.globals[i][1]
        return self.lookup_fn(name, nfuncs)

    def ev(self, e, locals_, ng, nf):
        self.steps += 1
        if self.steps > 200000:
            raise Unprintable()
        k = e[0]
        if k == "num":
            return float(e[1])
        if k == "bool":
            return e[1]
        if k == "str":
            out = ""
            for p in e[1]:
                out += p[1] if p[0] == "lit" else fmt_value(self.ev(p[1], locals_, ng, nf))
            return out
        if k == "var":
            return self.lookup_var(e[1], locals_, ng, nf)
        if k == "fnref":
            return self.lookup_fn(e[1], nf)
        if k == "bin":
            op = e[1]
            a = self.ev(e[2], locals_, ng, nf)
            b = self.ev(e[3], locals_, ng, nf)
            if op == "+":
                return a + b
            if op == "-":
                return a - b
            if op == "*":
                return a * b
            if op == "/":
                if b == 0:
                    raise EvalError("division by zero")
                return a / b
            if op == "<":
                return a < b
            if op == "<=":
                return a <= b
            if op == ">":
                return a > b
            if op == ">=":
                return a >= b
            if op == "==":
                return self.equal(a, b)
            if op == "!=":
                return not self.equal(a, b)
            if op == "&&":
                return a and b
            if op == "||":
                return a or b
            raise ValueError(op)
        if k == "neg":
            return -self.ev(e[1], locals_, ng, nf)
        if k == "fact":
            x = self.ev(e[2], locals_, ng, nf)
            if x < 0 or x != int(x):
                raise EvalError("factorial of a negative or non-integer number")
            result = 1.0
            while x >= 1.0 and result != float("inf"):
                result *= x
                x -= float(e[1])
            return result
        if k == "ans":
            if self.last is None:
                raise EvalError("no last result")
            return self.last
        if k == "not":
            return not self.ev(e[1], locals_, ng, nf)
        if k == "if":
            return self.ev(e[2], locals_, ng, nf) if self.ev(e[1], locals_, ng, nf) else self.ev(e[3], locals_, ng, nf)
        if k == "call":
            # a parameter or variable holding a function shadows a function of the same name: the generator never
            # produces such a collision, so the name is a function
            f = self.lookup_var(e[1], locals_, ng, nf)
            args = [self.ev(a, locals_, ng, nf) for a in e[2]]
            return self.apply(f, args)
        if k == "callv":
            f = self.ev(e[1], locals_, ng, nf)
            args = [self.ev(a, locals_, ng, nf) for a in e[2]]
            return self.apply(f, args)
        if k == "pipe":
            x = self.ev(e[1], locals_, ng, nf)
            f = self.lookup_var(e[2], locals_, ng, nf)
            args = [self.ev(a, locals_, ng, nf) for a in e[3]]
            return self.apply(f, args + [x])
        if k == "mk":
            vals = {f: self.ev(x, locals_, ng, nf) for f, x in e[2]}          # source order of evaluation
            return ("struct", e[1], [(f, vals[f]) for f, _ in STRUCTS[e[1]]])  # declaration order of storage
        if k == "field":
            v = self.ev(e[1], locals_, ng, nf)
            return dict(v[2])[e[2]]
        if k == "list":
            return [self.ev(x, locals_, ng, nf) for x in e[1]]
        raise ValueError(k)

    def equal(self, a, b):
        return a == b

    def apply(self, f, args):
        if isinstance(f, Builtin):
            return self.builtin(f.name, args)
        self.depth += 1
        if self.depth > 400:
            raise Unprintable()
        try:
            locals_ = list(zip([n for n, _ in f.params], args))
            for n, x in f.wheres:
                locals_.append((n, self.ev(x, locals_, f.nglobals, f.nfuncs)))
            return self.ev(f.body, locals_, f.nglobals, f.nfuncs)
        except RecursionError:
            raise Unprintable()
        finally:
            self.depth -= 1

    def builtin(self, name, a):
        if name == "abs":
            return abs(a[0])
        if name == "sqr":
            return a[0] * a[0]
        if name == "len":
            return float(len(a[0]))
        if name == "head":
            if not a[0]:
                raise EvalError("empty list")
            return a[0][0]
        if name == "tail":
            if not a[0]:
                raise EvalError("empty list")
            return a[0][1:]
        if name == "sum":
            s = 0.0
            for x in a[0]:          # foldl(_add, 0, xs)
                s = s + x
            return s
        if name == "element_at":
            i, xs = a
            xs = list(xs)
            while i != 0:
                if not xs:
                    raise EvalError("empty list")
                xs = xs[1:]
                i = i - 1
                self.steps += 1
                if self.steps > 200000:
                    raise Unprintable()
            if not xs:
                raise EvalError("empty list")
            return xs[0]
        if name == "str_length":
            return float(len(a[0].encode("utf-8")))
        if name == "cons":
            return [a[0]] + a[1]
        if name == "cons_end":
            return a[1] + [a[0]]
        if name == "concat":
            return a[0] + a[1]
        if name == "reverse":
            return a[0][::-1]
        if name == "take":
            n, xs = a
            out = []
            xs = list(xs)
            while not (n == 0 or not xs):
                out.append(xs[0])
                xs = xs[1:]
                n = n - 1
                self.steps += 1
                if self.steps > 200000:
                    raise Unprintable()
            return out
        if name == "drop":
            n, xs = a
            xs = list(xs)
            while not (n == 0 or not xs):
                xs = xs[1:]
                n = n - 1
                self.steps += 1
                if self.steps > 200000:
                    raise Unprintable()
            return xs
        if name == "range":
            s, e = a
            out = []
            while not s > e:
                out.append(s)
                s = s + 1
                if len(out) > 300:
                    raise Unprintable()
            return out
        if name == "sort":
            return sorted(a[0])
        if name == "map":
            return [self.apply(a[0], [x]) for x in a[1]]
        if name == "filter":
            return [x for x in a[1] if self.apply(a[0], [x])]
        if name == "foldl":
            acc = a[1]
            for x in a[2]:
                acc = self.apply(a[0], [acc, x])
            return acc
        if name == "is_empty":
            return a[0] == []
        if name == "str_append":
            return a[0] + a[1]
        if name == "str_prepend":
            return a[1] + a[0]
        raise ValueError(name)

    def run(self, stmts):
        """returns the value of the last expression statement (or None)"""
        last = None
        for s in stmts:
            k = s[0]
            if k == "let":
                v = self.ev(s[2], [], len(self.globals), len(self.funcs))
                self.globals.append((s[1], v))
            elif k == "fn":
                _, name, params, ret, body, wheres, _ann = s
                # the function sees everything defined so far, and itself
                self.funcs.append((name, Closure(name, params, body, wheres, len(self.globals), len(self.funcs) + 1)))
            elif k == "print":
                self.prints.append(fmt_value(self.ev(s[1], [], len(self.globals), len(self.funcs))))
            elif k == "expr":
                last = self.ev(s[1], [], len(self.globals), len(self.funcs))
                self.last = last
        return last


# ---------------------------------------------------------------------------------------------
# generation

class Gen:
    def __init__(self, rng, tag):
        self.rng = rng
        self.tag = tag
        self.n = 0
        self.globals = []       # (name, type)
        self.funcs = []         # (name, params, ret, recursive)
        self.stmts = []
        self.last_expr_type = None
        self.top_level = False

    def fresh(self, p):
        self.n += 1
        return f"{p}{self.tag}{self.n}"

    # visible names ----------------------------------------------------------------------------
    def vars_of(self, t, locals_):
        seen, out = set(), []
        for n, ty in reversed(locals_):
            if n not in seen:
                seen.add(n)
                if ty == t:
                    out.append(n)
        for n, ty in reversed(self.globals):
            if n not in seen:
                seen.add(n)
                if ty == t:
                    out.append(n)
        return out

    def fns_of(self, args, ret, locals_):
        """names usable as function values of that type: user functions (latest version of each name) and builtins"""
        out, seen = [], set()
        for name, params, r, _ in reversed(self.funcs):
            if name in seen:
                continue
            seen.add(name)
            if [t for _, t in params] == list(args) and r == ret:
                out.append(name)
        for name, (a, r) in BUILTINS.items():
            if a == list(args) and r == ret and name not in ("map", "filter", "foldl"):
                out.append(name)
        return out

    def callable_fns(self, ret):
        out, seen = [], set()
        for name, params, r, _rec in reversed(self.funcs):
            if name in seen:
                continue
            seen.add(name)
            if r == ret:
                out.append((name, [t for _, t in params], _rec))
        return out

    # expressions ------------------------------------------------------------------------------
    def leaf(self, t, locals_):
        rng = self.rng
        vs = self.vars_of(t, locals_)
        if vs and rng.random() < 0.6:
            return ("var", rng.choice(vs))
        if t == NUM:
            return ("num", float(rng.choice([0, 1, 2, 3, 4, 5, 7, 10, 12, 0.5, 2.5, 100])))
        if t == BOOL:
            return ("bool", rng.random() < 0.5)
        if t == STR:
            return ("str", [("lit", rng.choice(["", "a", "bc", "x y", "q{}q", "say \"hi\"", "t\\n"]))])
        if t[0] == "list":
            return ("list", [self.leaf(t[1], locals_) for _ in range(rng.choice([0, 1, 2, 3]))])
        if t[0] == "struct":
            fields = [(f, self.leaf(ft, locals_)) for f, ft in STRUCTS[t[1]]]
            rng.shuffle(fields)
            return ("mk", t[1], fields)
        if t[0] == "fn":
            fs = self.fns_of(t[1], t[2], locals_)
            vs = self.vars_of(t, locals_)
            if vs and rng.random() < 0.5:
                return ("var", rng.choice(vs))
            if fs:
                return ("fnref", rng.choice(fs))
            raise LookupError("no function of that type")
        raise ValueError(t)

    def expr(self, t, locals_, depth, in_fn=None):
        rng = self.rng
        if self.top_level and not locals_ and self.last_expr_type == t and rng.random() < 0.12:
            return ("ans", rng.choice(["ans", "_"]))
        if depth <= 0 or rng.random() < 0.12:
            return self.leaf(t, locals_)
        r = rng.random()
        if t == NUM and r > 0.97:
            return ("fact", rng.choice([1, 1, 2, 3]), ("num", float(rng.choice([0, 1, 3, 4, 5, 6]))))
        sub = lambda ty, d=depth - 1: self.expr(ty, locals_, d, in_fn)
        # constructs available for every type
        if r < 0.10:
            return ("if", sub(BOOL), sub(t), sub(t))
        if r < 0.20:
            cands = self.callable_fns(t)
            if cands:
                name, ats, rec = rng.choice(cands)
                args = [sub(a) for a in ats]
                if rec and in_fn != name:
                    args[0] = ("num", float(rng.choice([0, 1, 2, 3, 5])))     # bounded recursion
                if rng.random() < 0.25 and ats:
                    return ("pipe", args[-1], name, args[:-1])
                return ("call", name, args)
        if r < 0.25:
            # field access on a struct that has a field of this type
            opts = [(s, f) for s, fs in STRUCTS.items() for f, ft in fs if ft == t]
            if opts:
                s, f = rng.choice(opts)
                return ("field", sub(("struct", s)), f)
        if r < 0.29 and t[0] != "fn":
            try:
                fx = self.expr(FN([NUM], t), locals_, 1, in_fn) if t in (NUM, BOOL) else None
            except LookupError:
                fx = None
            if fx is not None:
                if fx[0] == "fnref" and rng.random() < 0.5:
                    fx = ("if", sub(BOOL, 1), fx, fx)
                return ("callv", fx, [sub(NUM)])
        if t == NUM:
            if r < 0.55:
                op = rng.choice(["+", "-", "*", "+", "-"])
                return ("bin", op, sub(NUM), sub(NUM))
            if r < 0.60:
                return ("bin", "/", sub(NUM), ("num", float(rng.choice([2, 4, 5, 10]))))
            if r < 0.65:
                return ("neg", sub(NUM))
            if r < 0.90:
                name = rng.choice(list(BUILTINS_NUM) + ["foldl"])
                ats, _ = BUILTINS[name]
                if name == "element_at":
                    lst = sub(LIST(NUM))
                    return ("if", ("bin", ">", ("call", "len", [lst]), ("num", 1.0)), ("call", "element_at", [("num", 1.0), lst]), sub(NUM))
                if name == "head":
                    lst = sub(LIST(NUM))
                    return ("if", ("call", "is_empty", [lst]), sub(NUM), ("call", "head", [lst]))
                try:
                    args = [sub(a) for a in ats]
                except LookupError:
                    return self.leaf(t, locals_)
                if rng.random() < 0.2:
                    return ("pipe", args[-1], name, args[:-1])
                return ("call", name, args)
            return self.leaf(t, locals_)
        if t == BOOL:
            if r < 0.55:
                op = rng.choice(["<", "<=", ">", ">=", "==", "!="])
                return ("bin", op, sub(NUM), sub(NUM))
            if r < 0.70:
                return ("bin", rng.choice(["&&", "||"]), sub(BOOL), sub(BOOL))
            if r < 0.78:
                return ("not", sub(BOOL))
            if r < 0.86:
                ty = rng.choice([STR, BOOL, LIST(NUM), ("struct", "VfP")])
                return ("bin", rng.choice(["==", "!="]), sub(ty), sub(ty))
            if r < 0.92:
                return ("call", "is_empty", [sub(LIST(NUM))])
            return self.leaf(t, locals_)
        if t == STR:
            if r < 0.65:
                parts = []
                for _ in range(rng.randint(1, 4)):
                    c = rng.random()
                    if c < 0.4:
                        parts.append(("lit", rng.choice(["a", " ", "=", "x:", "]", "{}"])))
                        continue
                    ty = NUM if c < 0.65 else BOOL if c < 0.8 else STR if c < 0.92 else LIST(NUM)
                    x = sub(ty, min(depth - 1, 2))
                    if contains_kind(x, ("str", "mk")):
                        # the tokenizer restricts `{`, `}` and nested string literals inside an interpolation
                        vs = self.vars_of(ty, locals_)
                        x = ("var", rng.choice(vs)) if vs else {NUM: ("num", 3.0), BOOL: ("bool", True), STR: ("var", "vf_s0"),
                                                                   LIST(NUM): ("list", [("num", 1.0)])}[ty]
                    parts.append(("ip", x))
                return ("str", parts)
            if r < 0.85:
                return ("call", rng.choice(["str_append", "str_prepend"]), [sub(STR), sub(STR)])
            return self.leaf(t, locals_)
        if t == LIST(NUM):
            if r < 0.45:
                return ("list", [sub(NUM) for _ in range(rng.choice([0, 1, 2, 3, 4]))])
            if r < 0.92:
                name = rng.choice(list(BUILTINS_LIST))
                ats, _ = BUILTINS[name]
                if name == "tail":
                    lst = sub(LIST(NUM))
                    return ("if", ("call", "is_empty", [lst]), lst, ("call", "tail", [lst]))
                if name == "range":
                    a = rng.choice([0, 1, 2, 3])
                    return ("call", "range", [("num", float(a)), ("num", float(a + rng.choice([-1, 0, 2, 4])))])
                if name in ("take", "drop"):
                    return ("call", name, [("num", float(rng.choice([0, 1, 2, 5]))), sub(LIST(NUM))])
                try:
                    args = [sub(a) for a in ats]
                except LookupError:
                    return self.leaf(t, locals_)
                if rng.random() < 0.25:
                    return ("pipe", args[-1], name, args[:-1])
                return ("call", name, args)
            return self.leaf(t, locals_)
        if t[0] == "struct":
            fields = [(f, sub(ft)) for f, ft in STRUCTS[t[1]]]
            rng.shuffle(fields)
            return ("mk", t[1], fields)
        if t[0] == "fn":
            if r < 0.5:
                return ("if", sub(BOOL), self.leaf(t, locals_), self.leaf(t, locals_))
            return self.leaf(t, locals_)
        return self.leaf(t, locals_)

    # statements -------------------------------------------------------------------------------
    def statement(self):
        self.top_level = True
        try:
            s = self._statement()
        finally:
            self.top_level = False
        if s[0] == "expr":
            self.last_expr_type = s[2] if len(s) > 2 else None
            s = s[:2]
        return s

    def _statement(self):
        rng = self.rng
        r = rng.random()
        try:
            if r < 0.30:
                t = rng.choice([NUM, NUM, NUM, BOOL, STR, LIST(NUM), ("struct", "VfP"), ("struct", "VfR"), ("struct", "VfN"),
                                FN([NUM], NUM)])
                names = [n for n, ty in self.globals if ty == t]
                name = rng.choice(names) if names and rng.random() < 0.35 else self.fresh("v")      # shadowing
                e = self.expr(t, [], rng.choice([1, 2, 3, 4]))
                self.globals.append((name, t))
                return ("let", name, e)
            if r < 0.55:
                return self.function()
            if r < 0.70:
                t = rng.choice([STR, STR, NUM, BOOL])
                return ("print", self.expr(t, [], rng.choice([1, 2, 3])))
            t = rng.choice([NUM, NUM, BOOL, STR, LIST(NUM), ("struct", "VfP"), ("struct", "VfR"), ("struct", "VfN")])
            return ("expr", self.expr(t, [], rng.choice([2, 3, 4, 5])), t)
        except LookupError:
            return ("expr", ("num", 1.0), NUM)

    def function(self):
        rng = self.rng
        existing = [f for f in self.funcs]
        redefine = existing and rng.random() < 0.25
        if redefine:
            name, params, ret, _ = rng.choice(existing)       # same signature: callers keep type-checking
            params = [(self.fresh("p"), t) for _, t in params]
        else:
            name = self.fresh("f")
            nparams = rng.choice([1, 1, 2, 2, 3])
            params = []
            for i in range(nparams):
                t = NUM if i == 0 else rng.choice([NUM, NUM, BOOL, STR, LIST(NUM), FN([NUM], NUM), ("struct", "VfP")])
                # a parameter may deliberately carry the name of a global (shadowing)
                gl = [n for n, ty in self.globals]
                pn = rng.choice(gl) if gl and rng.random() < 0.2 and rng.choice(gl) not in [p for p, _ in params] else self.fresh("p")
                if pn in [p for p, _ in params]:
                    pn = self.fresh("p")
                params.append((pn, t))
            ret = rng.choice([NUM, NUM, NUM, BOOL, STR, LIST(NUM), ("struct", "VfP")])
        locals_ = list(params)
        wheres = []
        for _ in range(rng.choice([0, 0, 0, 1, 2])):
            wt = rng.choice([NUM, BOOL, LIST(NUM)])
            same = [p for p, pt in params if pt == wt]
            wn = rng.choice(same) if same and rng.random() < 0.2 else self.fresh("w")      # a where binding may shadow a parameter
            wheres.append((wn, self.expr(wt, locals_, 2), wt))
            locals_.append((wn, wt))
        recursive = params[0][1] == NUM and rng.random() < 0.3
        depth = rng.choice([1, 2, 3])
        if recursive:
            # bounded recursion on the first parameter
            self.funcs.append((name, params, ret, True))
            try:
                rest = [self.expr(t, locals_, 1) for _, t in params[1:]]
                rec_call = ("call", name, [("bin", "-", ("var", params[0][0]), ("num", 1.0))] + rest)
                base = self.expr(ret, locals_, 1)
                if ret == NUM:
                    step = ("bin", rng.choice(["+", "*", "-"]), self.expr(NUM, locals_, 1), rec_call)
                elif ret == LIST(NUM):
                    step = ("call", rng.choice(["cons", "cons_end"]), [("var", params[0][0]), rec_call])
                elif ret == STR:
                    if contains_kind(rec_call, ("str", "mk")):
                        step = ("call", "str_append", [("str", [("ip", ("var", params[0][0])), ("lit", ",")]), rec_call])
                    else:
                        step = ("str", [("ip", ("var", params[0][0])), ("lit", ","), ("ip", rec_call)])
                elif ret == BOOL:
                    step = ("not", rec_call)
                else:
                    step = rec_call
                body = ("if", ("bin", "<=", ("var", params[0][0]), ("num", 0.0)), base, step)
            except LookupError:
                self.funcs.pop()
                raise
        else:
            body = self.expr(ret, locals_, depth)
            self.funcs.append((name, params, ret, False))
        annotated = rng.random() < 0.6 or any(t[0] in ("fn", "struct") or t in (STR, BOOL, LIST(NUM)) for _, t in params) or ret != NUM
        return ("fn", name, params, ret, body, [(n, x) for n, x, _ in wheres], annotated)


def contains_kind(e, kinds):
    """does the expression tree contain a node of one of these kinds?"""
    if isinstance(e, tuple):
        if e and isinstance(e[0], str) and e[0] in kinds:
            return True
        return any(contains_kind(c, kinds) for c in e[1:])
    if isinstance(e, list):
        return any(contains_kind(c, kinds) for c in e)
    return False


NODE_KINDS = {"ans", "fact", "num", "bool", "str", "var", "fnref", "bin", "neg", "not", "if", "call", "callv", "pipe", "mk", "field", "list", "lit", "ip"}


def gen_program(rng, tag, nstmts):
    g = Gen(rng, tag)
    g.globals.append(("vf_s0", STR))
    stmts = [("let", "vf_s0", ("str", [("lit", "s0")]))]
    for _ in range(nstmts):
        s = g.statement()
        stmts.append(s)
    return stmts, g


def gen_scope_program(rng, tag):
    """programs that are all about name resolution: a few global names re-bound several times, functions defined in
    between that read them (directly, through other functions, through parameters/where-bindings of the same name),
    functions re-defined, function values stored before a re-definition — and everything called at the end"""
    g = Gen(rng, tag)
    g.globals.append(("vf_s0", STR))
    stmts = [("let", "vf_s0", ("str", [("lit", "s0")]))]
    names = [g.fresh("v") for _ in range(rng.randint(1, 3))]
    fnames = []
    stored = []
    for n in names:
        stmts.append(("let", n, ("num", float(rng.randint(1, 9)))))
        g.globals.append((n, NUM))
    for step in range(rng.randint(3, 9)):
        r = rng.random()
        if r < 0.35:
            n = rng.choice(names)
            e = rng.choice([("num", float(rng.randint(10, 99))), ("bin", "+", ("var", n), ("num", float(rng.randint(1, 9)))),
                            ("bin", "*", ("var", rng.choice(names)), ("num", 10.0))])
            if fnames and rng.random() < 0.3:
                f, np_ = rng.choice(fnames)
                e = ("call", f, [("var", rng.choice(names))] * np_)
            stmts.append(("let", n, e))
            g.globals.append((n, NUM))
        elif r < 0.85:
            redefine = fnames and rng.random() < 0.35
            if redefine:
                f, np_ = rng.choice(fnames)
            else:
                f, np_ = g.fresh("f"), rng.choice([0, 0, 1, 1, 2])
                fnames.append((f, np_))
            params = []
            for i in range(np_):
                pn = rng.choice(names) if rng.random() < 0.3 and rng.choice(names) not in [p for p, _ in params] else g.fresh("p")
                if pn in [p for p, _ in params]:
                    pn = g.fresh("p")
                params.append((pn, NUM))
            pool = [("var", n) for n in names] + [("var", p) for p, _ in params]
            body = rng.choice(pool)
            for _ in range(rng.randint(0, 2)):
                body = ("bin", rng.choice(["+", "-", "*"]), body, rng.choice(pool + [("num", float(rng.randint(1, 5)))]))
            others = [(h, k) for h, k in fnames if h != f]
            if others and rng.random() < 0.5:
                h, k = rng.choice(others)
                body = ("bin", "+", body, ("call", h, [rng.choice(pool)] * k))
            wheres = []
            if rng.random() < 0.3:
                wn = rng.choice(names + [p for p, _ in params]) if rng.random() < 0.6 else g.fresh("w")
                wheres.append((wn, ("bin", "+", rng.choice(pool), ("num", 1000.0))))
                body = ("bin", "+", body, ("var", wn))
            stmts.append(("fn", f, params, NUM, body, wheres, rng.random() < 0.4))
            g.funcs.append((f, params, NUM, False))
        elif fnames:
            f, np_ = rng.choice(fnames)
            if np_ == 1:
                v = g.fresh("g")
                stmts.append(("let", v, ("fnref", f)))
                stored.append(v)
                g.globals.append((v, FN([NUM], NUM)))
        if fnames and rng.random() < 0.5:
            f, np_ = rng.choice(fnames)
            stmts.append(("print", ("call", f, [("var", rng.choice(names))] * np_)))
    # observe everything
    obs = [("var", n) for n in names] + [("call", f, [("num", float(i + 2))] * k) for i, (f, k) in enumerate(fnames)] + \
          [("callv", ("var", v), [("num", 7.0)]) for v in stored]
    stmts.append(("expr", ("list", obs)))
    return stmts, g
