"""Hostile text generators for C08 (and reused as failing inputs elsewhere)."""
from __future__ import annotations

import glob
import os
import random
import re

from .core import REPO

TOKENS = [
    "+", "-", "*", "/", "^", "**", "->", "→", "➞", "to", "per", "|>", "=", "==", "!=", "<", ">", "<=", ">=", "&&", "||", "!",
    "(", ")", "[", "]", "{", "}", ",", ":", ";", ".", "?", "…", "·", "×", "÷", "²", "³", "⁻¹", "√", "π", "°", "′", "″", "%",
    "let", "fn", "unit", "dimension", "struct", "use", "if", "then", "else", "where", "and", "true", "false", "NaN", "inf",
    "print", "assert", "assert_eq", "type", "ans", "_", "@aliases", "@metric_prefixes", "@name", "@url", "@description",
    "@example", "@binary_prefixes", "@abbreviation", "long", "short", "both", "none", "Scalar", "Length", "Time", "Mass", "Dim",
    "List", "String", "Bool", "DateTime", "Fn", "m", "s", "kg", "km", "h", "min", "cm", "N", "J", "W", "Hz", "°C", "°F", "K", "deg",
    "rad", "byte", "KiB", "sin", "cos", "sqrt", "abs", "map", "sum", "len", "head", "tail", "cons", "range", "now", "datetime",
    "0", "1", "2", "3", "10", "1e3", "1e-3", "1e30", "1e308", "1e309", "0x1F", "0b101", "0o17", "1_000", ".5", "1.", "1e", "0x",
    '"', '"str"', '"a {1+1} b"', '"{', '}"', '"\\n"', "#", "# comment", "\n", "\n\n", " ", "\t", "x", "y", "f", "foo", "bar_1",
    "1/0", "2^-1", "9999999999999999999999", "1e-400", "-0", "--", "++", "//", "/*", "*/", "\\", "'", "`", "~", "$", "€", "£",
    "½", "₁", "α", "Ω", "µ", "μ", "Δx", "x̄", "🦀", "​", "‮", "﻿", "\x00", "\r\n",
]


class Corpus:
    _cache = None

    @classmethod
    def load(cls):
        if cls._cache is not None:
            return cls._cache
        files = sorted(glob.glob(os.path.join(REPO, "examples", "**", "*.nbt"), recursive=True))
        files += sorted(glob.glob(os.path.join(REPO, "numbat", "modules", "**", "*.nbt"), recursive=True))
        docs, lines = [], []
        for f in files:
            try:
                text = open(f, encoding="utf-8").read()
            except Exception:
                continue
            docs.append(text)
            for l in text.splitlines():
                if l.strip() and not l.strip().startswith("#"):
                    lines.append(l)
        examples = []
        for d in docs:
            for m in re.finditer(r'@example\("((?:[^"\\]|\\.)*)"', d):
                examples.append(m.group(1).replace('\\"', '"'))
        cls._cache = {"docs": docs, "lines": lines, "examples": examples}
        return cls._cache


def tokenize_rough(s):
    return re.findall(r"[A-Za-z_][A-Za-z0-9_]*|\d+(?:\.\d+)?(?:e[+-]?\d+)?|\s+|.", s, flags=re.S)


def mutate_tokens(rng, s, n=None):
    toks = tokenize_rough(s)
    if not toks:
        return s
    for _ in range(n or rng.randint(1, 4)):
        if not toks:
            break
        i = rng.randrange(len(toks))
        op = rng.randrange(6)
        if op == 0:
            del toks[i]
        elif op == 1:
            toks.insert(i, toks[i])
        elif op == 2:
            toks[i] = rng.choice(TOKENS)
        elif op == 3:
            toks.insert(i, rng.choice(TOKENS))
        elif op == 4 and len(toks) > 1:
            j = rng.randrange(len(toks))
            toks[i], toks[j] = toks[j], toks[i]
        else:
            j = rng.randrange(i, min(len(toks), i + 6))
            toks[i:j] = toks[i:j] * rng.randint(2, 4)
    return "".join(toks)


def mutate_bytes(rng, s, n=None):
    b = bytearray(s.encode("utf-8"))
    for _ in range(n or rng.randint(1, 5)):
        if not b:
            b = bytearray(b" ")
        i = rng.randrange(len(b))
        op = rng.randrange(4)
        if op == 0:
            del b[i]
        elif op == 1:
            b.insert(i, rng.randrange(256))
        elif op == 2:
            b[i] ^= 1 << rng.randrange(8)
        else:
            b[i:i] = rng.choice(TOKENS).encode("utf-8")
    return b.decode("utf-8", "replace")


def soup(rng, n=None):
    n = n or rng.randint(1, 40)
    parts = []
    for _ in range(n):
        r = rng.random()
        if r < 0.7:
            parts.append(rng.choice(TOKENS))
        elif r < 0.85:
            parts.append(chr(rng.choice([rng.randint(32, 126), rng.randint(0xA0, 0x2FF), rng.randint(0x2000, 0x2BFF),
                                         rng.randint(0x1F300, 0x1F6FF)])))
        else:
            parts.append(str(rng.choice([0, 1, 2, 10, 255, 65535, 65536, 2 ** 31, 2 ** 53, 2 ** 63, 2 ** 64, 2 ** 127, 2 ** 128])))
        if rng.random() < 0.6:
            parts.append(" ")
    return "".join(parts)


# -- templates for extreme inputs; {n} is the size class ---------------------------------

def t_nested_parens(n):
    return "(" * n + "1" + ")" * n


def t_nested_lists(n):
    return "[" * n + "1" + "]" * n


def t_add_run(n):
    return "1" + "+1" * n


def t_mul_units_run(n):
    return "1 m" + " * 2 m" * n


def t_pow_tower(n):
    return "2" + "^1" * n


def t_neg_run(n):
    return "-" * n + "1"


def t_not_run(n):
    return "!" * n + "true"


def t_factorial_run(n):
    return "3" + "!" * n


def t_conv_chain(n):
    return "1 m" + " -> cm -> m" * n


def t_if_chain(n):
    return "if true then 1 else " * n + "0"


def t_nested_if(n):
    return "if " * n + "true" + " then true else false" * n


def t_call_nest(n):
    return "abs(" * n + "1" + ")" * n


def t_long_ident(n):
    return "let " + "a" * n + " = 1"


def t_long_string(n):
    return '"' + "x" * n + '"'


def t_interp_nest(n):
    return '"' + "{1 + " * min(n, 200) + "1" + "}" * min(n, 200) + '"'


def t_many_lets(n):
    return "\n".join(f"let vf_x{i} = {i}" for i in range(n))


def t_long_list(n):
    return "[" + ", ".join(str(i) for i in range(n)) + "]"


def t_dim_product(n):
    return "dimension VfD = " + " * ".join(["Length"] * n)


def t_unit_pow(n):
    return f"(m/cm)^{n}"


def t_apply_chain(n):
    return "1" + " |> abs" * n


def t_field_chain(n):
    return "1" + ".a" * n


def t_struct_fields(n):
    return "struct VfBig { " + ", ".join(f"f{i}: Scalar" for i in range(n)) + " }"


def t_fn_params(n):
    return "fn vf_many(" + ", ".join(f"p{i}" for i in range(n)) + ") = p0"


def t_per_chain(n):
    return "1 m" + " per s" * n


def t_unicode_exp(n):
    return "2" + "²" * n


TEMPLATES = [t_nested_parens, t_nested_lists, t_add_run, t_mul_units_run, t_pow_tower, t_neg_run, t_not_run, t_factorial_run,
             t_conv_chain, t_if_chain, t_nested_if, t_call_nest, t_long_ident, t_long_string, t_interp_nest, t_many_lets,
             t_long_list, t_dim_product, t_unit_pow, t_apply_chain, t_field_chain, t_struct_fields, t_fn_params, t_per_chain,
             t_unicode_exp]

EXTREME_LITERALS = [
    "1e308 * 10", "1e-320 / 1e10", "2^1024", "2^-1080", "(-8)^(1/3)", "0^0", "0^-1", "(1 m)^1e30", "((m/cm)^1e30)^1e30",
    "(m^2)^(0.1+0.2)", "(1 m)^1e30 * (m^2)^(0.1+0.2)", "m^(1/3) * m^(2/3)", "x^(2^126)", "fn vf_p(x) = x^(2^126) * x^(2^126)", "1e400", "1e-400", "9" * 400,
    "0." + "0" * 400 + "1", "0x" + "F" * 40, "0b" + "1" * 200, "1_0_0_0", "1e+", "1e+400 m", "(1e200 m)^2 * (1e200 m)^2",
    "sqrt(-1 m^2)", "ln(0)", "1 / (0 m)", "mod(5, 0)", "mod(5 m, 0 m)", "gamma(-1)", "gamma(171.7)", "170!", "171!", "1000!", "(-1)!", "2.5!",
    "3!!", "10!!!", "range(1, 0)", "random()", "round(1e300)", "fn vf_p(x) = x x^(2^126) * x^(2^126)",
    "unit vf_u = [1, 2, 3]", 'unit vf_u = "s"', "unit vf_u = true", "unit vf_u = now()", "unit vf_u = sqrt", '"{?}"', 'fn vf_h(x) = "{x + ?}"',
    'print("{?} and {?}")', "assert_eq(1, 2, 1e-70)", "assert_eq(1 g, 2 g, 1e-101 g)", "assert_eq(0.6e-70, 2, 1e-70)", "assert_eq(1, 2, 1e-300)",
    "floor(NaN)", "1 m -> NaN", "NaN m -> cm", "inf m + 1 m", "inf - inf", "0 * inf", "now() + 1e18 s", "now() - 1e18 years",
    'datetime("9999-12-31 23:59:59 UTC") + 1 year', 'datetime("0000-00-00")', 'date("2024-02-30")', 'tz("")', 'format_datetime("%", now())',
    'format_datetime("%Q", now())', '"{1:x}"', '"{1:>99999}"', '"{1:.99999}"', '"{"a":?}"', "hex(1e300)", "bin(-1)", "hex(2^64)",
    "base(1, 10)", "base(99, 10)", "base(2, 1e300)", "chr(1e9)", "chr(-1)", "chr(0xD800)", "ord(\"\")", 'str_slice(5, 1, "abc")',
    'str_slice(0, 1e30, "abc")', 'str_rep(-1, "ab")', 'parse("")', 'parse("1e999 m")', "element(\"Xx\")", "unit_of(0 m)",
    "value_of(1 m) -> m", "1 m |> unit_of |> unit_of", "quantity_cast(1 m, s)", "head([])", "tail([])", "sort([NaN, 1, NaN])",
    "[1 m, 2 s]", "mean([])", "maximum([])", "linspace(0, 1, 0)", "linspace(0, 1, 1)", "unit_list([], 1 m)", "1 m -> [ft, in]",
    "5 -> hex", "5.5 -> bin", "-5 -> oct", "1e30 -> hex", "human(1e30 s)", "human(-1 s)", "human(NaN s)", "1e30 s -> human",
    "2 ** 3 ** 4 ** 5", "1 per per", "per s", "m per", "1 m to", "to m", "-> m", "1 ->", "let let = 1", "fn fn() = 1", "unit unit",
    "use", "use prelude", "use units::si", "use a::b::c::d::e", "struct", "struct S {}", "S {}", "S { a: 1 }.a.b", "if", "if true", "1 if 2",
    "@aliases(x) let y = 1", "@aliases() unit vf_z", "@metric_prefixes\nlet q = 1", "@name(1) unit vf_w", "@url unit vf_v",
    "dimension D = D", "dimension E = E^2", "unit vf_u1: Length = 1 s", "unit vf_u2 = vf_u2", "fn vf_r(x) = vf_r(x)", "sqrt(0)(0)",
    "fn vf_deep(n) = if n == 0 then 0 else 1 + vf_deep(n - 1)\nvf_deep(100000)", "fn vf_d2(n) = if n == 0 then 0 else vf_d2(n - 1)\nvf_d2(1e5)",
    "let xs = range(1, 20000)\nfoldl(add, 0, xs)", "map(sqrt, range(1, 1000))", "fn vf_id(x) = x\nmap(vf_id, map(vf_id, [1 m]))",
    "type(1 m)", "type(type)", "type()", "print()", "print(1, 2)", "assert()", "assert(1)", "assert_eq(1)", "assert_eq(1, 2, 3, 4)",
    "assert_eq(1 m, 1 s)", "assert_eq(1 m, 1 m, 1 s)", "assert_eq([1], [1], 1)", 'assert_eq("a", "a", 1)', "assert_eq(0.7, 2, 1)",
    "1 m == 1 s", "1 m < \"a\"", "true + 1", "\"a\" * 2", "[1] + [2]", "now() * 2", "now() - now() -> years", "ans", "_", "ans + 1", "_ _",
    "fn vf_self(n) = if n <= 0 then 0 else foldl(vf_self, n - 1, [1])\nvf_self(3)", "fn vf_s2(x) = (if x > 0 then vf_s2 else abs)(x - 1)\nvf_s2(2)",
    "fn vf_s3(xs) = if is_empty(xs) then 0 else sum(map(vf_s3, [tail(xs)]))\nvf_s3([1, 2])", "fn vf_s4(x) = [vf_s4]\nvf_s4(1)",
    "fn vf_s5(x) = y where y = vf_s5", "fn vf_s6(f, x) = f(vf_s6, x)",
    "(if 1 m > 0 m then sin else cos)(0)", "fn vf_s7(y) = (if y > 0 m then vf_s7 else abs)(y)", "(if true then [sqrt][0 m] else sin)(1)",
    "range(-1, NaN)", "range(NaN, 3)", "linspace(0, 1, 2.5)", "linspace(0, 1, NaN)", "linspace(0 m, 1 m, 1)",
    "gcd(60, inf)", "gcd(NaN, 1)", "lcm(inf, 2)", "gcd(1e300, 7)", "gcd(0.5, 0.25)", "mod(inf, 60)", "mod(60, inf)", "mod(NaN, NaN)",
    "?", "??", "? + 1 m", "1 + ?", "let x: ? = 1", "…", "1 … 2", "...", "1 +\n2", "1\n+ 2", "(\n1\n)", "[\n1,\n2\n]", "fn f(\nx\n) = x",
]


def gen_input(rng, corpus):
    """one hostile input text (bounded size)"""
    r = rng.random()
    if r < 0.22:
        return mutate_tokens(rng, rng.choice(corpus["lines"]))
    if r < 0.32:
        return mutate_bytes(rng, rng.choice(corpus["lines"]))
    if r < 0.40:
        a, b = rng.choice(corpus["lines"]), rng.choice(corpus["lines"])
        return a[: rng.randint(0, len(a))] + b[rng.randint(0, len(b)):]
    if r < 0.50:
        return mutate_tokens(rng, rng.choice(corpus["examples"] or corpus["lines"]))
    if r < 0.58:
        d = rng.choice(corpus["docs"])
        ls = d.splitlines()
        i = rng.randrange(max(1, len(ls)))
        chunk = "\n".join(ls[i:i + rng.randint(1, 12)])
        return mutate_tokens(rng, chunk, rng.randint(0, 3))
    if r < 0.72:
        return soup(rng)
    if r < 0.84:
        e = rng.choice(EXTREME_LITERALS)
        return e if rng.random() < 0.6 else mutate_tokens(rng, e, 1)
    if r < 0.94:
        t = rng.choice(TEMPLATES)
        return t(rng.choice([1, 2, 3, 10, 10, 50, 100]))
    # combination of two extreme literals
    return rng.choice(EXTREME_LITERALS) + rng.choice([" + ", " * ", "\n", " -> ", "; "]) + rng.choice(EXTREME_LITERALS)
