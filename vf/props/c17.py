"""C17 — standard-library modules compose in any order."""
import json

from ..core import get_worker, rng_for, WorkerDied, WorkerTimeout

LEVEL = "exploration"
RULE = ("all standard-library modules (Context::list_modules): each imported alone into a fresh session and imported "
        "twice (second import must change nothing); ordered pairs `use A; use B` vs `use B; use A` (quick: a seeded "
        "sample of 300 unordered pairs, thorough: all of them) and random subsets of 3-8 modules in two random orders "
        "must give the same session snapshot: variable/function/dimension names, function signatures, unit names with "
        "aliases, every unit's structured definition, and the value (bit pattern) and displayed type of every variable. "
        "distinct = ordered module list; non-trivial = the two modules are different")
EXHAUSTIVE = {"quick": False, "thorough": True}
FLOOR = {"quick": 300, "thorough": 2000}
ASSUMPTIONS = ["`units::currencies` runs on numbat's built-in test exchange rates", "name lists are compared as sets: the order "
               "in which names are listed legitimately follows the import order"]
NSHARDS = 16


def shards(tier, seed):
    return [{"idx": i, "n": NSHARDS, "seed": seed, "tier": tier} for i in range(NSHARDS)]


def snapshot(w, sid):
    names = w.call({"op": "names", "sid": sid}, timeout=120)
    udb = w.call({"op": "unitdb", "sid": sid}, timeout=120)
    reqs = [{"op": "eval", "sid": sid, "code": v, "stmts": False, "render": False} for v in names["variables"]]
    vals = {}
    if reqs:
        res = w.batch(reqs, timeout=300)
        for v, r in zip(names["variables"], res):
            vals[v] = {"ok": r.get("ok"), "value": r.get("value"), "shown": r.get("out_text"), "err": r.get("kind")}
    units = {}
    for u in udb["units"]:
        units[u["name"]] = {k: u.get(k) for k in ("is_base", "canonical", "aliases", "metric", "binary", "dim", "definition")}
    return {
        "variables": sorted(names["variables"]),
        "functions": sorted(map(tuple, names["functions"])),
        "dimensions": sorted(names["dimensions"]),
        "unit_names": sorted(tuple(sorted(u)) for u in names["units"]),
        "imported": sorted(names["imported"]),
        "units": units,
        "values": vals,
    }


def diff(a, b):
    out = []
    for key in ("variables", "functions", "dimensions", "unit_names", "imported"):
        if a[key] != b[key]:
            sa, sb = set(map(json.dumps, a[key])), set(map(json.dumps, b[key]))
            out.append(f"{key}: only in first {sorted(sa - sb)[:5]}, only in second {sorted(sb - sa)[:5]}")
    for name in sorted(set(a["units"]) | set(b["units"])):
        if a["units"].get(name) != b["units"].get(name):
            out.append(f"unit {name} is defined differently: {json.dumps(a['units'].get(name))[:200]} vs {json.dumps(b['units'].get(name))[:200]}")
    for name in sorted(set(a["values"]) | set(b["values"])):
        if a["values"].get(name) != b["values"].get(name):
            out.append(f"variable {name}: {json.dumps(a['values'].get(name))[:200]} vs {json.dumps(b['values'].get(name))[:200]}")
    return out


def load(w, mods):
    """fresh session importing mods in order; returns (sid, error response or None)"""
    sid, r = w.new(use=list(mods), timeout=300)
    if not r.get("ok"):
        return None, r
    return sid, None


def check_order(sh, w, order_a, order_b):
    case = {"first": list(order_a), "second": list(order_b)}
    sa, ea = load(w, order_a)
    sb, eb = load(w, order_b)
    sh.judged()
    try:
        for order, e in ((order_a, ea), (order_b, eb)):
            if e is not None:
                sh.violation(case, f"importing {' ; '.join('use ' + m for m in order)} fails at `use {e.get('failed_module')}`: "
                                   f"{e.get('stage')}/{e.get('kind')}: {e.get('msg') or e.get('panic')}")
                return
        snap_a, snap_b = snapshot(w, sa), snapshot(w, sb)
        d = diff(snap_a, snap_b)
        if d:
            sh.violation(case, f"sessions differ after importing {order_a} vs {order_b}: " + "; ".join(d[:4]))
        if len(set(order_a)) > 1:
            sh.nontrivial(tuple(order_a), tuple(order_b))
        sh.count("variables_compared", len(snap_a["values"]))
        sh.count("units_compared", len(snap_a["units"]))
    finally:
        for s in (sa, sb):
            if s:
                w.drop(s)


def run_shard(sh, spec):
    w = get_worker()
    mods = w.call({"op": "modules", "sid": "p"})["modules"]
    idx, n = spec["idx"], spec["n"]
    rng = rng_for(spec["seed"], "C17", 0)       # same plan in every shard, work split by index
    if idx == 0:
        sh.count("modules", len(mods))
    work = []
    for m in mods:
        work.append(("single", m))
    pairs = [(a, b) for i, a in enumerate(mods) for b in mods[i + 1:]]
    if spec["tier"] == "quick":
        pairs = rng.sample(pairs, min(300, len(pairs)))
    for p in pairs:
        work.append(("pair", p))
    for _ in range(50 if spec["tier"] == "quick" else 500):
        sub = rng.sample(mods, rng.randint(3, 8))
        o1, o2 = list(sub), list(sub)
        rng.shuffle(o1)
        rng.shuffle(o2)
        work.append(("subset", (o1, o2)))
    for i, (kind, item) in enumerate(work):
        if i % n != idx:
            continue
        try:
            if kind == "single":
                m = item
                s1, e1 = load(w, [m])
                sh.judged()
                if e1 is not None:
                    sh.violation({"module": m}, f"`use {m}` fails in a fresh session: {e1.get('stage')}/{e1.get('kind')}: "
                                                f"{e1.get('msg') or e1.get('panic')}")
                    continue
                before = snapshot(w, s1)
                r = w.eval(s1, f"use {m}", stmts=False)
                after = snapshot(w, s1)
                w.drop(s1)
                if not r.get("ok"):
                    sh.violation({"module": m}, f"importing {m} a second time fails: {r.get('msg') or r.get('panic')}")
                elif r.get("prints"):
                    sh.violation({"module": m}, f"importing {m} a second time prints {r.get('prints')[:2]} (it ran again)")
                else:
                    d = diff(before, after)
                    if d:
                        sh.violation({"module": m}, f"importing {m} a second time changes the session: " + "; ".join(d[:3]))
                sh.nontrivial("single", m)
                if len(sh.samples) < 2:
                    sh.sample({"module": m, "variables": len(before["variables"]), "functions": len(before["functions"]),
                               "units": len(before["units"])})
            elif kind == "pair":
                a, b = item
                check_order(sh, w, [a, b], [b, a])
            else:
                o1, o2 = item
                check_order(sh, w, o1, o2)
        except (WorkerDied, WorkerTimeout) as e:
            sh.violation({"item": item}, f"interpreter crashed/hung while importing {item}: {e}")
            w.restart()


def replay(sh, case):
    w = get_worker()
    if "module" in case:
        s, e = load(w, [case["module"]])
        print("load:", e)
    else:
        check_order(sh, w, case["first"], case["second"])


LEVEL_TEXT = ("Exploration, exhaustive over module pairs in the thorough tier: the real resolver/interpreter imports modules into "
              "fresh sessions in both orders (and random larger subsets in two orders, and each module twice); a monitor "
              "compares complete session snapshots (names, signatures, unit definitions, variable values bit for bit).")
LEVEL_NOTE = ("Trusted: the snapshot covers what the public API and the unit accessor expose; function bodies are compared only "
              "through their signatures.")
TECHNIQUE = "runtime monitoring: import-order permutation monitor over complete session snapshots"
