#!/bin/bash
# usage: tools/seedflow.sh <Cxx> [check ids...]  — accept (if not yet accepted) then run checks against the seed
ID=$1; shift
if [ ! -d /verif/seeded/$ID ]; then /verif/tools/seedaccept.sh $ID > /dev/null 2>&1; fi
tail -1 /tmp/seed/$ID.accept.log
if [ -d /verif/seeded/$ID ]; then /verif/tools/seedtest.sh /verif/seeded/$ID "${@:-$ID}" ; fi
