"""C04 — conversion yields exactly the requested unit and the same quantity."""
import math
from fractions import Fraction

from ..core import get_worker, rng_for, qval, WorkerDied, WorkerTimeout
from ..unitdb import load_unitdb, rel_close, nmul, ndiv, exact, sunit_key
from ..gen import (UnitPool, EvalSession, MAGNITUDES, lit, plit, random_uexpr, sibling_uexpr,
                   random_magnitude, atom_uexpr)

LEVEL = "exploration"
RULE = ("(1) every ordered pair of mutually convertible prelude units (identity included) x 6 magnitudes "
        "(1, 40.5, -3, 1e-7, 2.5e12, 0): `x A -> B`, round trip `(x A -> B) -> A`, and via a third unit; "
        "(2) seeded random compound sources/targets (products, quotients, powers, prefixes, numeric-multiple "
        "targets like `-> 45 min`). distinct = (source unit text, target unit text, magnitude); "
        "non-trivial = source and target differ in size (model factor ratio != 1) and magnitude != 0")
EXHAUSTIVE = {"quick": False, "thorough": False}
FLOOR = {"quick": 2000, "thorough": 5000}
ASSUMPTIONS = ["unit definitions (direct factor + defining unit) are read from the session; transitive factors, "
               "dimensions and prefix factors are computed by the model with exact rationals",
               "same physical quantity = relative difference <= 1e-9 of the base-unit values"]
NSHARDS = 16
TOL = 1e-9


def shards(tier, seed):
    n_random = 3000 if tier == "quick" else 50000
    return [{"idx": i, "n": NSHARDS, "seed": seed, "n_random": n_random // NSHARDS, "tier": tier}
            for i in range(NSHARDS)]


def num_of(text):
    t = text.replace("_", "").strip()
    if t in ("inf", "-inf", "NaN"):
        return float(t.replace("NaN", "nan"))
    return float(t)


def check_display(r, raw_target, db):
    """the displayed text must be `<number> <unit of U>` or `<c> × <display of U>`"""
    v = r["value"]
    text = r["val_text"]
    tq = qval(raw_target)
    if tq == 1.0:
        ut = raw_target["unit_text"]
        if not text.endswith(ut):
            return f"displayed {text!r} does not end with the requested unit {ut!r}"
        head = text[: len(text) - len(ut)].strip()
        try:
            x = num_of(head)
        except ValueError:
            return f"displayed {text!r}: {head!r} is not a number followed by the unit {ut!r}"
        val = qval(v)
        if not (math.isclose(x, val, rel_tol=1e-5, abs_tol=0) or (x == 0 and abs(val) < 1e-300) or x == val):
            return f"displayed number {x!r} is not the value {val!r}"
    else:
        tail = "× " + raw_target["text"]
        if not text.endswith(tail):
            return f"displayed {text!r} is not a multiple of the requested {raw_target['text']!r}"
        head = text[: len(text) - len(tail)].strip()
        try:
            x = num_of(head)
        except ValueError:
            return f"displayed {text!r}: coefficient {head!r} is not a number"
        val = qval(v) / tq
        if not (math.isclose(x, val, rel_tol=1e-5) or x == val):
            return f"displayed coefficient {x!r} is not value/target = {val!r}"
    return None


def judge_conversion(sh, db, case, r, src_base, raw_target):
    """r = eval result of `q -> U`; src_base = model base value of q; raw_target = raw value of U"""
    if r.get("status") == "panic":
        return f"panic: {r['panic']}"
    if not r.get("ok"):
        return f"conversion between same-dimension units fails: {r.get('stage')}/{r.get('kind')}: {r.get('msg')}"
    v = r.get("value")
    if not v or v.get("t") != "q":
        return f"result is not a quantity: {v}"
    if sunit_key(v["unit"]) != sunit_key(raw_target["unit"]):
        return (f"result unit {v['unit_text']!r} is not exactly the requested unit "
                f"{raw_target['unit_text']!r}")
    if v.get("simp"):
        return "result of an explicit conversion is still marked as simplifiable"
    got = db.base_value(v)
    if not rel_close(got, src_base, TOL):
        return f"value changed: source is {float(src_base)!r} in base units, result is {float(got)!r}"
    d = check_display(r, raw_target, db)
    if d:
        return d
    return None


def simple_target(unit_name):
    return {"t": "q", "v": {"b": "3ff0000000000000", "r": "1.0"},
            "unit": [{"name": unit_name, "prefix": ["m", 0], "exp": ["1", "1"]}],
            "unit_text": None, "text": None}


def run_pairs(sh, w, db, pool, spec):
    pairs = pool.ordered_pairs()
    es = EvalSession(w)
    rng = rng_for(spec["seed"], "C04", 1000 + spec["idx"])
    unit_text = {}

    def utext(u):
        if u not in unit_text:
            r = es.eval(f"1 {pool.primary(u).text} -> {pool.primary(u).text}")
            unit_text[u] = r["value"]["unit_text"] if r.get("ok") else None
        return unit_text[u]

    for i, (a, b) in enumerate(pairs):
        if i % spec["n"] != spec["idx"]:
            continue
        sa, sb = pool.primary(a), pool.primary(b)
        fa, fb = db.base_factor(a), db.base_factor(b)
        third = pool.sibling(rng, a)
        st = pool.primary(third)
        codes, metas = [], []
        for x in MAGNITUDES:
            q = f"{plit(x)} {sa.text}"
            codes += [f"{q} -> {sb.text}", f"({q} -> {sb.text}) -> {sa.text}", f"{q} -> {st.text} -> {sb.text}"]
            metas += [("direct", x), ("roundtrip", x), ("via", x)]
        try:
            rs = es.batch(codes)
        except (WorkerDied, WorkerTimeout) as e:
            sh.violation({"kind": "pair", "a": a, "b": b}, f"interpreter crashed/hung converting {a} -> {b}: {e}")
            w.restart()
            es.reset()
            continue
        tb = simple_target(b)
        tb["unit_text"] = utext(b)
        ta = simple_target(a)
        ta["unit_text"] = utext(a)
        for code, (kind, x), r in zip(codes, metas, rs):
            src_base = nmul(exact(x), fa)
            tgt = ta if kind == "roundtrip" else tb
            case = {"kind": "pair", "a": a, "b": b, "code": code}
            sh.judged()
            why = judge_conversion(sh, db, case, r, src_base, tgt)
            if kind == "roundtrip" and why is None and x != 0:
                # converting back restores the magnitude
                if not math.isclose(qval(r["value"]), x, rel_tol=TOL):
                    why = f"round trip magnitude {qval(r['value'])!r} != original {x!r}"
            if why:
                sh.violation(case, f"`{code}`: {why}", r.get("value"))
            if fa != fb and x != 0:
                sh.nontrivial(a, b, x, kind)
            if kind == "direct" and x == 40.5 and a != b:
                sh.sample({"code": code, "displayed": r.get("val_text")})
    es.close()


def run_random(sh, w, db, pool, spec):
    rng = rng_for(spec["seed"], "C04", spec["idx"])
    es = EvalSession(w, refresh=150)
    for k in range(spec["n_random"]):
        src = random_uexpr(rng, pool, allow_frac=False)
        tgt = sibling_uexpr(rng, pool, src)
        x = random_magnitude(rng)
        mult = 1.0
        if rng.random() < 0.25:
            mult = rng.choice([45.0, 2.0, 0.5, 12.0, 1e3])
        q = f"{plit(x)} * ({src.text})"
        u = f"({tgt.text})" if mult == 1.0 else f"({lit(mult)} * ({tgt.text}))"
        code = f"{q} -> {u}"
        case = {"kind": "random", "code": code, "q": q, "u": u}
        try:
            rs = es.run([
                {"op": "eval", "code": f"let vf_u = {u}", "stmts": False},
                {"op": "raw_global", "names": ["vf_u"]},
                {"op": "eval", "code": code, "stmts": False},
                {"op": "eval", "code": f"({code}) -> ({src.text})", "stmts": False},
                {"op": "eval", "code": f"let vf_s = ({src.text})", "stmts": False},
                {"op": "raw_global", "names": ["vf_s"]},
                {"op": "eval", "code": f"let vf_c = {code}", "stmts": False},
                {"op": "eval", "code": f"vf_c -> ({src.text})", "stmts": False},
            ])
        except (WorkerDied, WorkerTimeout) as e:
            sh.violation(case, f"interpreter crashed/hung on `{code}`: {e}")
            w.restart()
            es.reset()
            continue
        r_let, r_raw, r_conv, r_back, r_lets, r_raws, r_letc, r_back2 = rs
        if not r_let.get("ok"):
            # generated target is itself invalid (e.g. overflow to inf): not a conversion case
            sh.inconclusive_case(f"target expression not evaluable: {r_let.get('msg')}", case) if False else sh.count("target_not_evaluable")
            continue
        raw_u = r_raw["values"]["vf_u"]
        src_base = nmul(exact(x), src.factor)
        sh.judged()
        why = judge_conversion(sh, db, case, r_conv, src_base, raw_u)
        if why is None:
            # back to the source unit restores the quantity
            if not r_back.get("ok"):
                why = f"converting back fails: {r_back.get('msg') or r_back.get('panic')}"
            elif not rel_close(db.base_value(r_back["value"]), src_base, TOL):
                why = (f"round trip changed the quantity: {float(src_base)!r} -> "
                       f"{float(db.base_value(r_back['value']))!r}")
            elif r_lets.get("ok") and x != 0:
                # the second conversion is a conversion like any other: exactly the requested unit, displayed as such,
                # whether the converted value is used directly or was stored in a variable first
                raw_s = r_raws["values"]["vf_s"]
                for rb, how in ((r_back, f"({code}) -> ({src.text})"), (r_back2, f"let vf_c = {code}; vf_c -> ({src.text})")):
                    w2 = judge_conversion(sh, db, case, rb, src_base, raw_s)
                    if w2:
                        why = f"converting the converted value on, `{how}`: {w2}"
                        break
        if why:
            sh.violation(case, f"`{code}`: {why}", r_conv.get("value"))
        if src.factor != tgt.factor and x != 0:
            sh.nontrivial(src.text, u, x)
        if k < 2:
            sh.sample({"code": code, "displayed": r_conv.get("val_text")})
    es.close()


def run_shard(sh, spec):
    w = get_worker()
    db = load_unitdb(w)
    pool = UnitPool(db)
    sh.count("ordered_pairs_total", len(pool.ordered_pairs()) if spec["idx"] == 0 else 0)
    run_pairs(sh, w, db, pool, spec)
    run_random(sh, w, db, pool, spec)


def replay(sh, case):
    w = get_worker()
    db = load_unitdb(w)
    sid = w.fork("p")
    code = case["code"]
    r = w.eval(sid, code, stmts=False)
    # replays re-derive the expectation from the source text through the model where possible
    sh.judged()
    if r.get("status") == "panic" or not r.get("ok"):
        sh.violation(case, f"`{code}`: {r.get('msg') or r.get('panic')}", r)
        return
    if case.get("kind") == "random":
        w.eval(sid, f"let vf_u = {case['u']}", stmts=False)
        raw_u = w.call({"op": "raw_global", "sid": sid, "names": ["vf_u"]})["values"]["vf_u"]
        rq = w.eval(sid, f"let vf_q = {case['q']}", stmts=False)
        raw_q = w.call({"op": "raw_global", "sid": sid, "names": ["vf_q"]})["values"]["vf_q"]
        why = judge_conversion(sh, db, case, r, db.base_value(raw_q), raw_u)
        if why:
            sh.violation(case, f"`{code}`: {why}", r.get("value"))
    else:
        print(json_dump(r))


def json_dump(x):
    import json
    return json.dumps(x, ensure_ascii=False)[:2000]


LEVEL_TEXT = ("Exploration with an exhaustive core: all 2 105 ordered pairs of mutually convertible prelude units x 6 "
              "magnitudes are converted by the real interpreter (direct, round trip, via a third unit) and every result "
              "is judged by an independent exact-rational unit model (requested unit structurally, displayed text, same "
              "physical quantity within 1e-9); seeded random compound/prefixed/numeric-multiple targets on top.")
LEVEL_NOTE = ("Trusted: the harness' UnitDB model (definitions read from the session, arithmetic its own), the 1e-9 "
              "tolerance (measured worst round-trip error 4e-16), the server's serialisation of values.")
TECHNIQUE = "runtime monitoring: exhaustive unit-pair enumeration + random compound targets judged by an exact-rational reference model"
