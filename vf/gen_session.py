"""Random interactive sessions: sequences of inputs that each succeed, built over a small
typed vocabulary so that later inputs can use what earlier ones defined."""
from __future__ import annotations

import re

DIMS = {
    "Length": ["m", "km", "cm", "ft", "inch"],
    "Time": ["s", "min", "h", "ms"],
    "Mass": ["kg", "g", "lb"],
    "Scalar": [""],
    "Velocity": ["m/s", "km/h", "mph"],
}
EXTRA_MODULES = ["extra::algebra", "chemistry::elements", "units::partsperx", "extra::color", "numerics::solve",
                 "numerics::diff", "extra::quadrature", "units::hartree", "units::bit", "numerics::fixed_point"]
# one name each of those modules defines (probe target)
MODULE_PROBE = {
    "extra::algebra": "quadratic_equation(1, 0, -1)", "chemistry::elements": 'element("H").symbol',
    "units::partsperx": "1 ppm", "extra::color": "rgb(1, 2, 3)", "numerics::solve": "root_bisect",
    "numerics::diff": "diff", "extra::quadrature": "integrate", "units::hartree": "1 hartree",
    "units::bit": "1 byte", "numerics::fixed_point": "fixed_point",
}


class SessionGen:
    def __init__(self, rng, tag="a"):
        self.rng = rng
        self.tag = tag
        self.n = 0
        self.vars = {}        # name -> dim
        self.fns = {}         # name -> (param dim or None for generic, kind)
        self.units = {}       # name -> dim
        self.structs = {}     # name -> [(field, dim)]
        self.struct_vars = {} # name -> struct name
        self.list_vars = {}   # name -> dim
        self.imported = []
        self.have_result = False

    def fresh(self, prefix):
        self.n += 1
        return f"{prefix}_{self.tag}{self.n}"

    def quantity(self, dim, depth=1):
        rng = self.rng
        opts = []
        same = [v for v, d in self.vars.items() if d == dim]
        if same and rng.random() < 0.5:
            opts.append(rng.choice(same))
        us = [u for u, d in self.units.items() if d == dim]
        x = rng.choice([1, 2, 3, 5, 10, 2.5, 0.5, 40, 100])
        if us and rng.random() < 0.4:
            opts.append(f"{x} {rng.choice(us)}")
        unit = rng.choice(DIMS[dim])
        opts.append(f"{x} {unit}".strip() if "/" not in unit else f"{x} {unit}")
        base = rng.choice(opts)
        if depth > 0 and rng.random() < 0.4:
            op = rng.choice(["+", "-"])
            return f"({base} {op} {self.quantity(dim, depth - 1)})"
        if depth > 0 and rng.random() < 0.25:
            return f"({base} * {rng.choice([2, 3, 0.5])})"
        fs = [f for f, (pd, kind) in self.fns.items() if (pd == dim and kind == "same") or pd is None]
        if fs and rng.random() < 0.3:
            return f"{rng.choice(fs)}({base})"
        return base

    def statement(self):
        """returns one input text (possibly multi-line) that should succeed"""
        rng = self.rng
        r = rng.random()
        dim = rng.choice(list(DIMS))
        if r < 0.22:
            name = self.fresh("vv") if not self.vars or rng.random() < 0.7 else rng.choice(list(self.vars))
            ann = f": {dim}" if rng.random() < 0.4 else ""
            code = f"let {name}{ann} = {self.quantity(dim)}"
            self.vars[name] = dim
            return code
        if r < 0.36:
            name = self.fresh("vf") if not self.fns or rng.random() < 0.7 else rng.choice(list(self.fns))
            k = rng.choice([2, 3, 10, 0.5])
            c = rng.randrange(4)
            if c == 0:
                code = f"fn {name}(x: {dim}) -> {dim} = x * {k}"
                self.fns[name] = (dim, "same")
            elif c == 1:
                code = f"fn {name}<D: Dim>(x: D) -> D = x * {k}"
                self.fns[name] = (None, "same")
            elif c == 2:
                code = f"fn {name}(x) = x * {k} + x"
                self.fns[name] = (None, "same")
            else:
                code = f"fn {name}(x: {dim}) = x / (1 {rng.choice(DIMS[dim]) or '1'})" if dim != "Scalar" else f"fn {name}(x: Scalar) = x + 1"
                self.fns[name] = (dim, "scalar")
            return code
        if r < 0.44:
            name = self.fresh("vu")
            c = rng.randrange(3)
            if dim == "Scalar":
                dim = "Length"
            if c == 0:
                code = f"unit {name} = {rng.choice([2, 12, 0.5, 1000])} {rng.choice(DIMS[dim])}"
            elif c == 1:
                code = f"unit {name}: {dim} = {rng.choice([3, 7])} {rng.choice(DIMS[dim])}"
            else:
                code = f"@metric_prefixes\n@aliases({name}s: long, {name}x: short)\nunit {name} = {rng.choice([2, 5])} {rng.choice(DIMS[dim])}"
            self.units[name] = dim
            return code
        if r < 0.48:
            name = self.fresh("VD")
            return f"dimension {name} = Length^{rng.randint(1, 3)} / Time^{rng.randint(1, 2)}"
        if r < 0.55:
            name = self.fresh("VS")
            d2 = rng.choice(list(DIMS))
            self.structs[name] = [("a", dim), ("b", d2)]
            var = self.fresh("vs")
            self.struct_vars[var] = name
            return f"struct {name} {{ a: {dim}, b: {d2} }}\nlet {var} = {name} {{ a: {self.quantity(dim, 0)}, b: {self.quantity(d2, 0)} }}"
        if r < 0.62:
            var = self.fresh("vl")
            self.list_vars[var] = dim
            return f"let {var} = [{', '.join(self.quantity(dim, 0) for _ in range(rng.randint(1, 4)))}]"
        if r < 0.68 and self.list_vars:
            v = rng.choice(list(self.list_vars))
            d = self.list_vars[v]
            c = rng.randrange(4)
            if c == 0:
                nv = self.fresh("vl")
                self.list_vars[nv] = d
                return f"let {nv} = cons({self.quantity(d, 0)}, {v})"
            if c == 1:
                nv = self.fresh("vl")
                self.list_vars[nv] = d
                return f"let {nv} = cons_end({self.quantity(d, 0)}, {v})"
            if c == 2:
                self.have_result = True
                return f"len({v})"
            self.have_result = True
            return f"sum({v})"
        if r < 0.74:
            mods = [m for m in EXTRA_MODULES if m not in self.imported]
            if mods:
                m = rng.choice(mods)
                self.imported.append(m)
                return f"use {m}"
        if r < 0.82:
            return f'print("{self.fresh("p")}: {{{self.quantity(dim)}}}")'
        if r < 0.86 and self.struct_vars:
            v = rng.choice(list(self.struct_vars))
            self.have_result = True
            return f"{v}.{rng.choice(['a', 'b'])}"
        if r < 0.90 and self.have_result:
            return rng.choice(["ans", "_", "ans * 2", "ans + ans", "_ * 1"])
        self.have_result = True
        q = self.quantity(dim)
        if dim != "Scalar" and rng.random() < 0.4:
            return f"{q} -> {rng.choice(DIMS[dim])}"
        return q

    def probes(self):
        """read-only inputs that observe everything the session defined"""
        out = []
        for v in self.vars:
            out.append(v)
        for v in self.list_vars:
            out.append(v)
        for v in self.struct_vars:
            out.append(v)
        for f, (pd, kind) in self.fns.items():
            d = pd or "Length"
            out.append(f"{f}(3 {DIMS[d][0]})".replace("(3 )", "(3)"))
        for u in self.units:
            out.append(f"2 {u}")
        return out


LABEL_RE = re.compile(r"<(input|internal):\d+>")


def normalize_diag(text):
    """only the source labels may differ between two sessions"""
    return LABEL_RE.sub(r"<\1:N>", text or "")


def observation(r):
    """what a user can observe of one eval response (labels normalised)"""
    if r.get("status") == "panic":
        return {"panic": (r.get("panic") or {}).get("msg", "")[:200]}
    if r.get("ok"):
        return {"ok": True, "value": r.get("value"), "shown": r.get("out_text"), "prints": r.get("prints")}
    d = r.get("diag") or {}
    return {"ok": False, "stage": r.get("stage"), "kind": r.get("kind"), "msg": normalize_diag(r.get("msg")),
            "diag": normalize_diag(d.get("plain")), "prints": r.get("prints")}
