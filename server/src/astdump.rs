//! Canonical dump of the *parser's* syntax tree (C10). The printer is owned by the
//! harness; it only reads the re-exported `ast` types.

use std::panic::{catch_unwind, AssertUnwindSafe};

use numbat::verif::ast::{BinaryOperator, Expression, Statement, StringPart, UnaryOperator};
use numbat::verif::parser::parse;
use serde_json::{json, Value as J};

fn binop(op: &BinaryOperator) -> &'static str {
    match op {
        BinaryOperator::Add => "add",
        BinaryOperator::Sub => "sub",
        BinaryOperator::Mul => "mul",
        BinaryOperator::Div => "div",
        BinaryOperator::Power => "pow",
        BinaryOperator::ConvertTo => "conv",
        BinaryOperator::LessThan => "lt",
        BinaryOperator::GreaterThan => "gt",
        BinaryOperator::LessOrEqual => "le",
        BinaryOperator::GreaterOrEqual => "ge",
        BinaryOperator::Equal => "eq",
        BinaryOperator::NotEqual => "ne",
        BinaryOperator::LogicalAnd => "and",
        BinaryOperator::LogicalOr => "or",
    }
}

pub fn expr_json(e: &Expression) -> J {
    match e {
        Expression::Scalar(_, n) => {
            let x = n.to_f64();
            json!(["num", format!("{:016x}", x.to_bits())])
        }
        Expression::Identifier(_, name) => json!(["id", name]),
        Expression::UnitIdentifier { name, .. } => json!(["unit", name.as_str()]),
        Expression::TypedHole(_) => json!(["hole"]),
        Expression::UnaryOperator { op, expr, .. } => match op {
            UnaryOperator::Negate => json!(["neg", expr_json(expr)]),
            UnaryOperator::LogicalNeg => json!(["not", expr_json(expr)]),
            UnaryOperator::Factorial(n) => json!(["fact", n.get(), expr_json(expr)]),
        },
        Expression::BinaryOperator { op, lhs, rhs, .. } => {
            json!([binop(op), expr_json(lhs), expr_json(rhs)])
        }
        Expression::FunctionCall { callable, args, .. } => {
            let mut v = vec![json!("call"), expr_json(callable)];
            v.extend(args.iter().map(expr_json));
            J::Array(v)
        }
        Expression::Boolean(_, b) => json!(["bool", b]),
        Expression::String(_, parts) => {
            let mut v = vec![json!("str")];
            for p in parts {
                match p {
                    StringPart::Fixed(s) => v.push(json!(["fixed", s.as_str()])),
                    StringPart::Interpolation {
                        expr,
                        format_specifiers,
                        ..
                    } => v.push(json!(["interp", expr_json(expr), format_specifiers])),
                }
            }
            J::Array(v)
        }
        Expression::Condition {
            condition,
            then_expr,
            else_expr,
            ..
        } => json!(["if", expr_json(condition), expr_json(then_expr), expr_json(else_expr)]),
        Expression::InstantiateStruct { name, fields, .. } => {
            let mut v = vec![json!("struct"), json!(name)];
            for (_, n, e) in fields {
                v.push(json!([n, expr_json(e)]));
            }
            J::Array(v)
        }
        Expression::AccessField {
            expr, field_name, ..
        } => json!(["field", expr_json(expr), field_name]),
        Expression::List(_, elements) => {
            let mut v = vec![json!("list")];
            v.extend(elements.iter().map(expr_json));
            J::Array(v)
        }
    }
}

fn stmt_json(s: &Statement) -> J {
    match s {
        Statement::Expression(e) => json!(["expr", expr_json(e)]),
        Statement::DefineVariable(dv) => json!(["let", dv.identifier, expr_json(&dv.expr)]),
        Statement::DefineFunction {
            function_name,
            parameters,
            body,
            ..
        } => json!(["fn", function_name,
            parameters.iter().map(|(_, n, _)| json!(n)).collect::<Vec<_>>(),
            body.as_ref().map(expr_json)]),
        Statement::DefineDimension(_, name, _) => json!(["dimension", name]),
        Statement::DefineBaseUnit(_, name, _, _) => json!(["base_unit", name]),
        Statement::DefineDerivedUnit {
            identifier, expr, ..
        } => json!(["unit", identifier, expr_json(expr)]),
        Statement::ProcedureCall(_, kind, args) => {
            let mut v = vec![json!("proc"), json!(format!("{kind:?}"))];
            v.extend(args.iter().map(expr_json));
            J::Array(v)
        }
        Statement::ModuleImport(_, path) => json!(["use", path.0.join("::")]),
        Statement::DefineStruct { struct_name, .. } => json!(["defstruct", struct_name]),
    }
}

/// `{"op":"parse","codes":[...]}` → per code either `{"ok":true,"stmts":[...]}` or
/// `{"ok":false,"errors":[kind names]}`.
pub fn op_parse(req: &J) -> J {
    let mut res = vec![];
    if let Some(codes) = req.get("codes").and_then(|v| v.as_array()) {
        for c in codes {
            let code = c.as_str().unwrap_or("");
            let r = catch_unwind(AssertUnwindSafe(|| match parse(code, 0) {
                Ok(stmts) => json!({"ok": true, "stmts": stmts.iter().map(stmt_json).collect::<Vec<_>>()}),
                Err((stmts, errors)) => json!({
                    "ok": false,
                    "partial": stmts.len(),
                    "errors": errors.iter().map(|e| json!({
                        "kind": crate::variant_name_pub(&format!("{:?}", e.kind)),
                        "msg": e.kind.to_string(),
                        "span": [e.span.start.0, e.span.end.0],
                    })).collect::<Vec<_>>(),
                }),
            }));
            res.push(match r {
                Ok(j) => j,
                Err(_) => json!({"ok": false, "panic": crate::take_panic_pub()}),
            });
        }
    }
    json!({"ok": true, "res": res})
}
