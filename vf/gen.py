"""Shared workload generators: numeric literals, unit spellings, unit expressions with
model values (exact rationals) carried alongside the generated source text."""
from __future__ import annotations

import math
import re
from fractions import Fraction

from .unitdb import (METRIC_PREFIXES, BINARY_PREFIXES, UnitDB, dim_add, dim_scale, nmul, npow,
                     nadd, ndiv, to_dec, prefix_factor)


def lit(x: float) -> str:
    """numbat literal for a finite, non-negative-or-negative float (exact round trip)"""
    if math.isnan(x):
        return "NaN"
    if math.isinf(x):
        return "inf" if x > 0 else "-inf"
    if x == int(x) and abs(x) < 1e15:
        s = str(int(x))
        if x == 0 and math.copysign(1.0, x) < 0:
            return "-0"
        return s
    s = repr(float(x))
    m = re.fullmatch(r"(-?[0-9.]+)e([+-]?)0*([0-9]+)", s)
    if m:
        s = f"{m.group(1)}e{'-' if m.group(2) == '-' else ''}{m.group(3)}"
    return s


def plit(x: float) -> str:
    """literal, parenthesised when negative"""
    s = lit(x)
    return f"({s})" if s.startswith("-") else s


IDENT_SAFE = re.compile(r"^[A-Za-z_][A-Za-z0-9_]*$")


class Spelling:
    """one way to write a (prefix, unit): text, unit name, prefix ('m'|'b', k)"""
    __slots__ = ("text", "unit", "prefix", "alias", "form")

    def __init__(self, text, unit, prefix, alias, form):
        self.text, self.unit, self.prefix, self.alias, self.form = text, unit, prefix, alias, form

    def __repr__(self):
        return f"Spelling({self.text!r}={self.prefix}*{self.unit})"


def accepted_spellings(db: UnitDB, unit_name: str, with_prefixes=True):
    """All identifier spellings the unit declares as accepted (the harness' own table)."""
    U = db.units[unit_name]
    out = []
    for alias, short, long_ in U.aliases:
        out.append(Spelling(alias, unit_name, ("m", 0), alias, "plain"))
        if not with_prefixes:
            continue
        tables = []
        if U.metric:
            tables.append(("m", METRIC_PREFIXES))
        if U.binary:
            tables.append(("b", BINARY_PREFIXES))
        for kind, table in tables:
            for long_name, shorts, k in table:
                if long_:
                    out.append(Spelling(long_name + alias, unit_name, (kind, k), alias, "long"))
                if short:
                    for s in shorts:
                        out.append(Spelling(s + alias, unit_name, (kind, k), alias, "short"))
    return out


class UnitPool:
    """Units grouped by convertibility, with their accepted spellings."""

    def __init__(self, db: UnitDB):
        self.db = db
        self.groups = db.by_dimension()          # key -> [unit names]
        self.group_of = {}
        for key, names in self.groups.items():
            for n in names:
                self.group_of[n] = key
        self.names = sorted(db.units)
        self._spell = {}

    def spellings(self, unit):
        """accepted spellings that are a single token: a prefix in front of an alias that
        does not start with an identifier-continue character (`″`, `°`, `%`, currency signs)
        is the business of C13, not of the properties that merely need valid quantities"""
        if unit not in self._spell:
            self._spell[unit] = [s for s in accepted_spellings(self.db, unit)
                                 if s.form == "plain" or (s.alias[0].isalpha() and s.alias[0].isascii())]
        return self._spell[unit]

    def primary(self, unit) -> Spelling:
        return self.spellings(unit)[0]

    def random_spelling(self, rng, unit, prefix_prob=0.5) -> Spelling:
        sp = self.spellings(unit)
        plain = [s for s in sp if s.form == "plain"]
        pref = [s for s in sp if s.form != "plain"]
        if pref and rng.random() < prefix_prob:
            # keep prefixes moderate most of the time so values stay in range
            mod = [s for s in pref if abs(s.prefix[1]) <= (12 if s.prefix[0] == "m" else 40)]
            return rng.choice(mod if mod and rng.random() < 0.8 else pref)
        return rng.choice(plain)

    def ordered_pairs(self):
        """all ordered pairs (a, b) of mutually convertible units, identity included"""
        out = []
        for key in sorted(self.groups, key=lambda k: repr(k)):
            names = sorted(self.groups[key])
            for a in names:
                for b in names:
                    out.append((a, b))
        return out

    def sibling(self, rng, unit):
        return rng.choice(self.groups[self.group_of[unit]])


class UExpr:
    """A unit expression: source text + model factor (to base units) + base-unit vector +
    dimension vector."""
    __slots__ = ("text", "factor", "bvec", "dim", "atoms")

    def __init__(self, text, factor, bvec, dim, atoms):
        self.text, self.factor, self.bvec, self.dim, self.atoms = text, factor, bvec, dim, atoms


def atom_uexpr(db: UnitDB, sp: Spelling) -> UExpr:
    f = nmul(prefix_factor(sp.prefix), db.base_factor(sp.unit))
    return UExpr(sp.text, f, db.base_units_of(sp.unit), db.unit_dim(sp.unit), [sp])


def power_text(text, e: Fraction, compound=False):
    if e == 1:
        return text
    base = f"({text})" if compound else text
    if e.denominator == 1:
        return f"{base}^{e.numerator}" if e.numerator >= 0 else f"{base}^({e.numerator})"
    return f"{base}^({e.numerator}/{e.denominator})"


def random_uexpr(rng, pool: UnitPool, nfactors=None, allow_frac=False, prefix_prob=0.4,
                 units=None) -> UExpr:
    """product/quotient of 1..3 unit powers, written with * and /"""
    db = pool.db
    n = nfactors or rng.choice([1, 1, 2, 2, 3])
    text = None
    factor = Fraction(1)
    bvec, dim, atoms = {}, {}, []
    for i in range(n):
        unit = rng.choice(units or pool.names)
        sp = pool.random_spelling(rng, unit, prefix_prob)
        a = atom_uexpr(db, sp)
        e = Fraction(rng.choice([1, 1, 1, 2, 3, -1, -2]))
        if allow_frac and rng.random() < 0.15:
            e = Fraction(rng.choice([1, 3, 5]), 2)
        div = i > 0 and rng.random() < 0.4
        if div:
            e_eff = -e
        else:
            e_eff = e
        piece = power_text(a.text, e)
        if text is None:
            text = piece
        else:
            text = f"{text} {'/' if div else '*'} {piece}"
        factor = nmul(factor, npow(a.factor, e_eff))
        bvec = dim_add(bvec, dim_scale(a.bvec, e_eff))
        dim = dim_add(dim, dim_scale(a.dim, e_eff))
        atoms.append((sp, e_eff))
    return UExpr(text, factor, bvec, dim, atoms)


def sibling_uexpr(rng, pool: UnitPool, ue: UExpr, prefix_prob=0.4) -> UExpr:
    """a different spelling of the same dimension: every atom replaced by a unit of the
    same convertibility group (possibly itself), new prefixes; same exponents"""
    db = pool.db
    text = None
    factor = Fraction(1)
    bvec, dim, atoms = {}, {}, []
    for sp, e in ue.atoms:
        unit = pool.sibling(rng, sp.unit)
        sp2 = pool.random_spelling(rng, unit, prefix_prob)
        a = atom_uexpr(db, sp2)
        piece = power_text(a.text, abs(e))
        if text is None:
            text = piece if e > 0 else f"1 / {piece}"
        else:
            text = f"{text} {'*' if e > 0 else '/'} {piece}"
        factor = nmul(factor, npow(a.factor, e))
        bvec = dim_add(bvec, dim_scale(a.bvec, e))
        dim = dim_add(dim, dim_scale(a.dim, e))
        atoms.append((sp2, e))
    return UExpr(text, factor, bvec, dim, atoms)


MAGNITUDES = [1.0, 40.5, -3.0, 1e-7, 2.5e12, 0.0]


def random_magnitude(rng, allow_zero=True, allow_neg=True):
    r = rng.random()
    if r < 0.08 and allow_zero:
        return 0.0
    if r < 0.35:
        x = float(rng.randint(1, 20))
    elif r < 0.6:
        x = rng.choice([0.5, 1.5, 2.25, 40.5, 0.125, 7.75, 1234.5])
    elif r < 0.85:
        x = round(rng.uniform(0.1, 1000), rng.choice([1, 2, 3, 6]))
    else:
        x = float(f"{rng.uniform(1, 10):.4g}e{rng.randint(-30, 30)}")
    if allow_neg and rng.random() < 0.2:
        x = -x
    return x


class EvalSession:
    """A forked session for pure expression evaluation that is re-forked regularly, so the
    constant table of a long-lived session never approaches its u16 limit (that limit is
    C08's business, not the business of the property using this helper)."""

    def __init__(self, w, base="p", refresh=400):
        self.w, self.base, self.refresh = w, base, refresh
        self.sid = None
        self.n = 0

    def _ensure(self):
        if self.sid is None or self.n >= self.refresh:
            if self.sid is not None:
                self.w.drop(self.sid)
            self.sid = self.w.fork(self.base)
            self.n = 0

    def eval(self, code, **opts):
        opts.setdefault("stmts", False)
        return self.run([dict({"op": "eval", "code": code}, **opts)])[0]

    def batch(self, codes, **opts):
        opts.setdefault("stmts", False)
        return self.run([dict({"op": "eval", "code": c}, **opts) for c in codes])

    def run(self, reqs):
        """batch of raw requests against this session. A panic inside `interpret` leaves the
        session in an undefined state (nothing is rolled back), so the session is abandoned
        and the remaining results of the batch are marked `skipped` (never judged)."""
        self._ensure()
        for r in reqs:
            r.setdefault("sid", self.sid)
        res = self.w.batch(reqs)
        self.n += sum(1 for r in reqs if r.get("op") == "eval")
        poisoned = False
        for i, r in enumerate(res):
            if poisoned:
                res[i] = {"ok": False, "status": "skipped"}
            elif r.get("status") == "panic":
                poisoned = True
        if poisoned:
            self.reset()
        return res

    def reset(self):
        self.sid = None
        self.n = 0

    def close(self):
        if self.sid is not None:
            try:
                self.w.drop(self.sid)
            except Exception:
                pass
            self.sid = None


# --------------------------------------------------------------------------------------
# arithmetic trees over quantities with exact model values (C03, C05, C01)

def _extreme(value, ufactor) -> bool:
    """would the float numbat holds for this node (value in the node's own unit) or its base-unit
    value leave the comfortable double range?  (the model has unbounded range, doubles do not)"""
    try:
        v = abs(to_dec(value))
        if v == 0:
            return False
        lo, hi = to_dec("1e-200"), to_dec("1e200")
        if not (lo < v < hi):
            return True
        nv = v / abs(to_dec(ufactor))
        return not (lo < nv < hi)
    except ArithmeticError:
        return True


class QTree:
    """expression text + exact model value (base units) + unit shape + conditioning;
    `extreme` marks trees with a node whose double representation may over/underflow"""
    __slots__ = ("text", "value", "shape", "relerr", "depth", "nleaves", "extreme")

    def __init__(self, text, value, shape, relerr, depth=0, nleaves=1, kids=()):
        self.text, self.value, self.shape, self.relerr = text, value, shape, relerr
        self.depth, self.nleaves = depth, nleaves
        self.extreme = any(k.extreme for k in kids) or _extreme(value, shape.factor)

    @property
    def bvec(self):
        return self.shape.bvec

    @property
    def dim(self):
        return self.shape.dim


def shape_mul(a: UExpr, b: UExpr, sign=1) -> UExpr:
    atoms = list(a.atoms) + [(sp, e * sign) for sp, e in b.atoms]
    return UExpr(None, nmul(a.factor, npow(b.factor, Fraction(sign))), dim_add(a.bvec, b.bvec, sign),
                 dim_add(a.dim, b.dim, sign), atoms)


def shape_pow(a: UExpr, k: Fraction) -> UExpr:
    return UExpr(None, npow(a.factor, k), dim_scale(a.bvec, k), dim_scale(a.dim, k),
                 [(sp, e * k) for sp, e in a.atoms])


def leaf_for_shape(rng, pool: UnitPool, shape: UExpr, x=None) -> "QTree":
    """a leaf quantity `x * (unit expr)` of the same dimension as `shape`, in different units"""
    x = random_magnitude(rng, allow_zero=True) if x is None else x
    if not shape.atoms:
        return QTree(plit(x), Fraction(x), UExpr("", Fraction(1), {}, {}, []), 1e-16)
    # merge atoms of the same unit so the text stays small
    ue = sibling_uexpr(rng, pool, shape)
    return QTree(f"({plit(x)} * ({ue.text}))", nmul(Fraction(x), ue.factor), ue, 1e-15)


def random_leaf(rng, pool: UnitPool, units=None) -> "QTree":
    x = random_magnitude(rng)
    if rng.random() < 0.12:
        return QTree(plit(x), Fraction(x), UExpr("", Fraction(1), {}, {}, []), 1e-16)
    ue = random_uexpr(rng, pool, nfactors=rng.choice([1, 1, 1, 2]), units=units)
    sp_simple = len(ue.atoms) == 1 and ue.atoms[0][1] == 1
    text = f"({plit(x)} {ue.text})" if sp_simple and rng.random() < 0.6 else f"({plit(x)} * ({ue.text}))"
    return QTree(text, nmul(Fraction(x), ue.factor), ue, 1e-15)


def random_qtree(rng, pool: UnitPool, depth: int, units=None) -> "QTree":
    if depth <= 0 or rng.random() < 0.15:
        return random_leaf(rng, pool, units)
    op = rng.choice(["+", "-", "*", "*", "/", "/", "^"])
    a = random_qtree(rng, pool, depth - 1, units)
    if op in "+-":
        if rng.random() < 0.5:
            b = leaf_for_shape(rng, pool, a.shape)
        else:
            # a deeper right operand of the same dimension: (leaf * scalar tree)
            b0 = leaf_for_shape(rng, pool, a.shape)
            s = random_magnitude(rng, allow_zero=False)
            b = QTree(f"({b0.text} * {plit(s)})", nmul(b0.value, Fraction(s)), b0.shape, b0.relerr + 1e-16,
                      1, 1, (b0,))
        if rng.random() < 0.5:
            a, b = b, a
        val = nadd(a.value, b.value) if op == "+" else nadd(a.value, -b.value)
        mag = to_dec(abs(a.value)) * to_dec(a.relerr) + to_dec(abs(b.value)) * to_dec(b.relerr)
        rel = float(mag / to_dec(abs(val))) + 1e-16 if val != 0 else float("inf")
        shape = a.shape if to_dec(a.shape.factor) <= to_dec(b.shape.factor) else b.shape
        return QTree(f"({a.text} {op} {b.text})", val, shape, rel, max(a.depth, b.depth) + 1,
                     a.nleaves + b.nleaves, (a, b))
    if op == "*":
        b = random_qtree(rng, pool, depth - 1, units)
        return QTree(f"({a.text} * {b.text})", nmul(a.value, b.value), shape_mul(a.shape, b.shape),
                     a.relerr + b.relerr + 1e-16, max(a.depth, b.depth) + 1, a.nleaves + b.nleaves, (a, b))
    if op == "/":
        b = random_qtree(rng, pool, depth - 1, units)
        if b.value == 0:
            return a
        return QTree(f"({a.text} / {b.text})", ndiv(a.value, b.value), shape_mul(a.shape, b.shape, -1),
                     a.relerr + b.relerr + 1e-16, max(a.depth, b.depth) + 1, a.nleaves + b.nleaves, (a, b))
    k = rng.choice([2, 2, 3, -1, -2, 0, 1])
    if a.value == 0 and k <= 0:
        k = 2
    kt = str(k) if k >= 0 else f"({k})"
    return QTree(f"({a.text}^{kt})", npow(a.value, Fraction(k)), shape_pow(a.shape, Fraction(k)),
                 abs(k) * a.relerr + 1e-16, a.depth + 1, a.nleaves, (a,))


def single_token_spelling(s: Spelling) -> bool:
    return s.form == "plain" or (s.alias[0].isalpha() and s.alias[0].isascii())
